#!/usr/bin/env python3
"""sweep_seeded.py [<name-prefix>...]: run, for every seeded change under /verif/seeded (or those
whose directory name starts with one of the prefixes), the quick check of its property against
/repo with the change applied; record which checks report it in seeded/detected.json and in the
change's meta.json.  /repo must be clean and no other check may be running."""
import json, os, subprocess, sys, glob
VROOT = os.path.dirname(os.path.dirname(os.path.abspath(__file__)))
REPO = os.environ.get("VERIF_REPO", "/repo")
ROOT = VROOT + "/seeded"
det_file = os.path.join(ROOT, "detected.json")
detected = json.load(open(det_file)) if os.path.exists(det_file) else {}
prefixes = sys.argv[1:]
also = {"C04-r3b": ["C11"]}   # a change written for one property that another property's check decides
for d in sorted(glob.glob(ROOT + "/C*")):
    name = os.path.basename(d)
    if prefixes and not any(name.startswith(p) for p in prefixes):
        continue
    patch = os.path.join(d, "patch.diff")
    if subprocess.run(["git", "-C", REPO, "apply", "--check", patch], capture_output=True).returncode != 0:
        # a later fix: commit touched the same lines: the change as ported to the current tree
        ports = sorted(f for f in os.listdir(d) if f.startswith("patch_ported_to_"))
        ok = [f for f in ports if subprocess.run(["git", "-C", REPO, "apply", "--check", os.path.join(d, f)], capture_output=True).returncode == 0]
        if not ok:
            print(name, "does not apply (superseded)"); continue
        patch = os.path.join(d, ok[-1])
    pid = name.split("-")[0]
    ids = [pid] + also.get(name, [])
    p = subprocess.run([sys.executable, VROOT + "/tools/try_mutant.py", patch] + ids, capture_output=True, text=True)
    hits = []
    for line in p.stdout.splitlines():
        w = line.split()
        if len(w) >= 2 and w[0] in ids and w[1].startswith("exit="):
            if w[1] == "exit=1" and "VIOLATION" in line:
                hits.append(w[0])
            elif w[1] not in ("exit=0", "exit=1"):
                print(name, "TOOL ERROR", line)
    detected[name] = hits
    meta_f = os.path.join(d, "meta.json")
    if os.path.exists(meta_f):
        meta = json.load(open(meta_f)); meta["detected_by"] = hits; json.dump(meta, open(meta_f, "w"), indent=1)
    json.dump(detected, open(det_file, "w"), indent=1, sort_keys=True)
    print(name, "detected by", hits if hits else "NOTHING", flush=True)
