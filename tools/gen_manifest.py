#!/usr/bin/env python3
"""Regenerates /verif/MANIFEST.json from the table below (one entry per claimed property)."""
import json, subprocess
props = [json.loads(l) for l in open('/verif/properties.jsonl')]
OPT_NOTE = ("Trusted: TLC, the cfg(packing_verif) hooks (cross-checked against the cells read directly), the harness projection "
            "(bit tokens, score ranks, 1e-6 fixed point). The bounded model is exhaustive for its constants; real executions are sampled.")
GEO_NOTE = ("Trusted: TLC's integer arithmetic, the unit conversion of the harness (integers -> f64), the reference group tables of "
            "Wallpaper.tla (validated by TLC against the group axioms). Exhaustive on the stated rational grids; off-grid inputs only through recorded histories.")
T = {
"C05": ("tlc-optimiser", "TLC decides on the bounded Optimiser model (all accept/reject/cooling interleavings for small constants) that a zero starting temperature admits no decrease of the accepted score; TLC then judges every step of hundreds of recorded executions of the real optimiser (scripted adversarial landscapes incl. 1-ulp-worse offers, real hard/LJ states, chained stages) against the same formulas (C05, C05Result).", OPT_NOTE),
"C06": ("tlc-optimiser", "Bounded model: Reject restores the vector bit for bit, one cell per proposal, result = last accepted (C06, C06Done; spec mutants staleOld/resetOther/noReset are refuted). Trace validation: the true cell contents, read at every hook event, are compared token-exactly by TLC at every step of every recorded run, including clamped proposals and out-of-range starts.", OPT_NOTE),
"C07": ("tlc-optimiser", "Metropolis rule as an action property over (score ranks, temperature class, draw-vs-probability verdict) checked exhaustively on the bounded model and on every decide step of every recorded run (draw and temperature from hooks, scores from the wrapper, comparison with the observed score of the held state).", OPT_NOTE),
"C08": ("tlc-optimiser", "Range invariant, defined-finite result and chain monotonicity (C08Range, C08Done, C08) on the bounded model and on every vector observed in recorded runs of all 7 groups, hard and LJ, chains of 1-4 stages incl. the CLI's chain; declared bounds come from the property statement and a reference group->family table, not from the code.", OPT_NOTE),
"C18": ("tlc-optimiser", "Cooling as a window predicate in log-domain fixed point: constant within a loop, one admissible step between loops, zero stays zero, last loop governed by the requested finish (C18, C18Finish); bounded model incl. the as-written variant that TLC refutes; every endloop of every recorded run.", OPT_NOTE),
"C19": ("tlc-optimiser", "One cell per proposal, move <= configured maximum, step ratio <= 1 (C19, C19Cap) on the model and on the true cell contents of every recorded proposal, with per-loop rejection patterns 0-100% and tiny/huge max_step_size.", OPT_NOTE),
"C20": ("tlc-optimiser", "No panic from a valid input, evals within [steps-inner, steps], convergence exit rule, termination (liveness under weak fairness on the bounded model), and the prefix clause as a self-composition over recorded pairs of runs (C20NoPanic, C20Work, C20Conv, C20Prefix, C20Terminates).", OPT_NOTE),
"C01": ("tlc-crystal", "TLC enumerates every reachable state of Crystal.tla on rational grids (7 groups x squares/kites/circle/trimers incl. thin molecules in thin sheared cells) and decides exactly, in integer arithmetic over as many image shells as the ShellBound lemma requires, whether any two images overlap; each state is replayed on the real PackedState (a scored state must not be `overlap`). Real optimisation histories are re-examined state by state by a float oracle calibrated against TLC on every grid state.", GEO_NOTE),
"C02": ("tlc-crystal", "Exact rational packing fraction (shoelace area / disjoint-disc area in units of pi over |A x B|) computed by TLC for every valid grid state and compared with score(); trimer parameter cases enumerated and classified exactly by Trimer.tla, area() compared with the exact multiple of pi and with an arc-integration oracle calibrated on those exact cases; polygon areas against the shoelace area of their own vertices.", GEO_NOTE + " Lens-shaped unions are transcendental: judged by the calibrated numeric oracle (assumption recorded in the evidence)."),
"C04": ("tlc-crystal", "TLC proves Symmetric (every reference operation is an isometry of the cell and permutes the placements modulo the lattice) as an invariant of the grid model and prints the placements; the real cartesian placements of hard and LJ states must equal them on every grid state (all 16 rational orientations, sites incl. +-1/2). Recorded optimiser runs are judged by TLC for C04Frozen (family-frozen parameters never move) and the crystals returned by 3-stage chains have their symmetry residual measured.", GEO_NOTE),
"C12": ("tlc-crystal", "TLC enumerates every configuration of two placed copies on a rational grid (offsets, 3-4-5/5-12-13 orientations, mirror images; parallel/collinear edges, shared vertices, coincident copies included) with the exact separating-axis / disc-distance verdict; 10 real answers per configuration (both argument orders x 5 common rigid motions and reflections) must equal it unless it is `touch`.", GEO_NOTE),
"C15": ("tlc-crystal", "Placements of Crystal.tla (operation k applied to the site, wrapped into the half-open cell, linear part W_k R) enumerated for all groups x sites on the 1/16 grid incl. +-1/2 and coordinates shifted by whole lattice vectors x 16 orientations; real relative_positions() of hard and LJ states compared as multisets.", GEO_NOTE),
"C13": ("tlc-crystal", "LJ.tla states the law in the rational form E = 4 eps (q^2 - q), q = (sigma/r)^6, with shift and cutoff cases; TLC enumerates (eps, q, cutoff) with the exact rational energy and model invariants (minimum -eps only at q = 1/2, zero at r = sigma, continuity at the cutoff); every case is realised at 4 sigmas, after rigid motions and reflections, in both argument orders. LJMol.tla enumerates pairs of grid molecules and lists the squared distances of all particle pairs; LJShape2::energy must equal the sum of the pair terms. Unlike particles: symmetry over a grid of sigma/epsilon/cutoff combinations.", GEO_NOTE),
"C14": ("tlc-crystal", "Lattice.tla: ToCart, Images(k, zero), Area, Corners in integers for every (family label, rational cell, placement anywhere in the plane, orientation, shell count, zero flag) of the grid (1.4e5 states, 2.9e6 images in the quick tier); to_cartesian/_point/_isometry/_translate, periodic_images (multiset, orientation unchanged), area and get_corners of the real Cell2 are compared with TLC's integers.", GEO_NOTE),
"C17": ("tlc-parser", "Parser.tla: grammar of coordinate triplets with its denotation, and a transcription of the character automaton; TLC runs the automaton over every grammar string within the digit sets (one state per character) and proves Automaton = Denote; every string is replayed on the real parser, which must return exactly Denote. MC_ParserJunk enumerates every string up to length 3 (4 thorough) over an alphabet with junk and multi-byte characters: no panic.", "Trusted: TLC, catch_unwind. Exhaustive within the stated bounds."),
"C16": ("tlc-wallpaper", "The implementation's tables are dumped and given to TLC, which walks the Cayley graph of each (closure) and checks identity, inverses, order, mirror/glide/two-fold content, family invariance and equality with the reference general positions modulo the lattice; the reference tables themselves are checked against the same axioms. Exhaustive.", "Trusted: TLC; the dump goes through get_wallpaper_group -> WyckoffSite::new (the path the program uses)."),
}
ENG = {"tlc-optimiser": ("/verif/spec/Optimiser.tla", "TLA+ spec of the MC optimiser; TLC bounded model checking (MC_Optimiser) and trace validation (OptimiserTrace) of runs recorded by /verif/harness"),
       "tlc-crystal": ("/verif/spec/Crystal.tla", "TLA+ spec of the crystal geometry in exact integer arithmetic (Crystal, Shapes, Pairs, Trimer, Wallpaper); TLC enumerates grid states with exact observables, /verif/harness replays them on the real code"),
       "tlc-parser": ("/verif/spec/Parser.tla", "grammar, denotation and character automaton of the symmetry-operation parser; TLC enumerates strings, the harness replays them on Transform2::from_operations"),
       "tlc-wallpaper": ("/verif/spec/Wallpaper.tla", "reference plane-group tables and axioms; TLC checks the implementation's dumped tables"),
       "tlc-pipeline": ("/verif/spec/Pipeline.tla", "TLA+ spec of the CLI pipeline (replicas, clones, reduction, outputs); TLC model checking + validation of recorded CLI runs")}
import importlib.util, os
extra = "/verif/tools/manifest_extra.py"
if os.path.exists(extra):
    spec = importlib.util.spec_from_file_location("mx", extra); mx = importlib.util.module_from_spec(spec); spec.loader.exec_module(mx)
    T.update(mx.T); ENG.update(getattr(mx, "ENG", {}))
checks = []
for p in props:
    if p['id'] in T:
        eng, text, note = T[p['id']][:3]
        level = T[p['id']][3] if len(T[p['id']]) > 3 else "model_checking"
        checks.append({"property_id": p['id'], "quick_cmd": "./check %s --tier quick" % p['id'],
                       "thorough_cmd": "./check %s --tier thorough" % p['id'],
                       "evidence_file": "/verif/evidence/%s.json" % p['id'],
                       "replay_cmd_template": "./check %s --replay {path}" % p['id'], "engine": eng,
                       "level_claimed": {"category": level, "text": text, "design_ref": "DESIGN.md section 7, " + p['id']},
                       "level_note": note,
                       "technique": "TLA+ specification checked with TLC, bound to the code by " + ("trace validation of recorded executions" if eng in ("tlc-optimiser", "tlc-pipeline") else "replaying TLC-enumerated states on the real code")})
na = [{"property_id": p['id'], "reason": "check under construction in this session (TLA+ module and replay harness planned in DESIGN.md section 7); not claimed yet"} for p in props if p['id'] not in T]
hooks = subprocess.run("git -C /repo log --format=%h --grep='^verif hooks' --reverse", shell=True, capture_output=True, text=True).stdout.split()
engines = [{"name": k, "path": v[0], "serves_properties": sorted(i for i in T if T[i][0] == k), "kind_free_text": v[1]} for k, v in ENG.items() if any(T[i][0] == k for i in T)]
m = {"version": 1, "setup_cmd": "cd /verif && python3 lib/setup.py",
     "hooks": {"guard": "packing_verif", "enable": "RUSTFLAGS='--cfg packing_verif' (set in /verif/harness/.cargo/config.toml; the harness has a path dependency on /repo)",
               "baseline_off_cmd": "cd /repo && cargo nextest run --workspace --no-fail-fast --offline", "source_commits": hooks, "add_only": True},
     "engines": engines, "checks": checks, "not_applicable": na,
     "notes": "See DESIGN.md. known_findings.json lists fixed defects (status=fixed, suppress nothing) and recorded findings (status=finding, keyed on the specific failing input)."}
json.dump(m, open('/verif/MANIFEST.json', 'w'), indent=1)
print(len(checks), "checks;", len(na), "not applicable")
