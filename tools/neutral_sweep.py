#!/usr/bin/env python3
"""neutral_sweep.py <results.jsonl> <patch.diff>...: for each property-preserving change pick the
checks its files can influence and run tools/try_neutral.py; one JSON line per change."""
import json, os, subprocess, sys
VROOT = os.path.dirname(os.path.dirname(os.path.abspath(__file__)))
OPT = "C05 C06 C07 C08 C18 C19 C20 C04 C09 C10 C11".split()
CLI = "C09 C10 C11 C20".split()
GEO = "C01 C02 C03 C04 C08 C09 C10 C11 C12 C13 C14 C15 C16 C17".split()
res, patches = sys.argv[1], sys.argv[2:]
for patch in patches:
    patch = os.path.abspath(patch)
    files = [l.split(" b/")[1].strip() for l in open(patch) if l.startswith("diff --git")]
    ids = set()
    for f in files:
        if f in ("src/optimisation.rs", "src/basis.rs"):
            ids |= set(OPT)
        elif f == "src/main.rs":
            ids |= set(CLI)
        else:
            ids |= set(GEO)
    if any(f.startswith("src/state/") or f in ("src/site.rs", "src/cell.rs") for f in files):
        ids |= set(OPT)   # the real-state suites of the optimiser checks run on these
    ids = sorted(ids)
    p = subprocess.run([sys.executable, VROOT + "/tools/try_neutral.py", patch] + ids, capture_output=True, text=True)
    alarms = [l for l in p.stdout.splitlines() if l.startswith("ALARM") or l.startswith("     ")]
    if "patch does not apply" in p.stdout or "is not clean" in p.stdout:
        print(patch, "NOT RUN:", p.stdout.strip()[-200:], flush=True)
        continue
    with open(res, "a") as f:
        f.write(json.dumps({"patch": patch, "files": files, "checks": ids, "alarms": alarms, "tail": p.stdout.splitlines()[-1:]}) + "\n")
    print(patch, "alarms:", len([a for a in alarms if a.startswith("ALARM")]), flush=True)
