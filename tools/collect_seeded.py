#!/usr/bin/env python3
"""Copy confirmed seeded changes from the scratch worktrees into /verif/seeded/<id>-<variant>/."""
import json, os, shutil, glob, subprocess, sys
detected = json.load(open('/verif/seeded/detected.json')) if os.path.exists('/verif/seeded/detected.json') else {}
for d in sorted(glob.glob('/tmp/mut/C*/out/*')) + sorted(glob.glob('/tmp/mut2/C*/out/*')) + sorted(glob.glob('/tmp/mut3/C*/out/*')) + sorted(glob.glob('/tmp/mut4/C*/out/*')) + sorted(glob.glob('/tmp/mut5/C*/out/*')) + sorted(glob.glob('/tmp/mut6/C*/out/*')) + sorted(glob.glob('/tmp/mut7/C*/out/*')) + sorted(glob.glob('/tmp/mut8/C*/out/*')):
    if not os.path.isdir(d) or not os.path.exists(d + '/patch.diff'):
        continue
    pid = d.split('/')[3]
    var = os.path.basename(d)
    if d.startswith('/tmp/mut2/'):
        var = 'r2' + var
    if d.startswith('/tmp/mut3/'):
        var = 'r3' + var
    if d.startswith('/tmp/mut4/'):
        var = 'r4' + var
    if d.startswith('/tmp/mut5/'):
        var = 'r5' + var
    if d.startswith('/tmp/mut6/'):
        var = 'r6' + var
    if d.startswith('/tmp/mut7/'):
        var = 'r7' + var
    if d.startswith('/tmp/mut8/'):
        var = 'r8' + var
    conf = json.load(open(d + '/confirm.json')) if os.path.exists(d + '/confirm.json') else {}
    if not conf.get('confirmed'):
        continue
    # superseded originals whose patch no longer applies to the current tree
    applies = subprocess.run(['git', '-C', '/repo', 'apply', '--check', d + '/patch.diff'], capture_output=True).returncode == 0
    name = '%s-%s' % (pid, var)
    out = '/verif/seeded/' + name
    os.makedirs(out, exist_ok=True)
    shutil.copy(d + '/patch.diff', out + '/patch.diff')
    shutil.copy(d + '/demo.rs', out + '/demo.rs')
    src_meta = d + '/meta.json'
    if not os.path.exists(src_meta) and d.endswith('_port'):
        src_meta = d[:-5] + '/meta.json'
    meta = json.load(open(src_meta)) if os.path.exists(src_meta) else {}
    meta['property'] = pid
    meta['confirmed_by_me'] = {"suite_with_change": conf.get('suite_summary'), "demo_exit_with_change": conf.get('demo_exit_with_change'),
                               "demo_exit_without_change": conf.get('demo_exit_without_change'),
                               "how": "tools/confirm_mutant.sh in a scratch worktree of /repo: git apply, cargo nextest (90 pass), demo fails; git checkout, demo passes"}
    meta['applies_to_current_repo_head'] = applies
    if var.endswith('_port'):
        meta['note'] = "ported by hand to the code after the fix commit 31f3cad (the original patch no longer applied); same mechanism, same demonstration"
    meta['detected_by'] = detected.get(name, [])
    json.dump(meta, open(out + '/meta.json', 'w'), indent=1)
    print(name, 'applies' if applies else 'SUPERSEDED', meta['detected_by'])
