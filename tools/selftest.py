#!/usr/bin/env python3
"""Selftest of the specifications (independent of /repo): every named wrong design (`Variant`)
must be refuted by TLC through the intended formula, and the correct design must pass.
Run when a spec or a model configuration changes."""
import os, sys
sys.path.insert(0, os.path.join(os.path.dirname(os.path.abspath(__file__)), "..", "lib"))
import vp, opt_checks, pipe_checks

ALL_INV = "TypeOK C05Result C06Done C08Range C08Done C18Finish C19Cap C20NoPanic C20Work"
ALL_PROP = "C05 C06 C07 C08 C18 C19 C20Conv WitnessForm"
EXPECT = {  # variant -> formulas one of which must be reported
    "spec": [],
    "factorAsWritten": ["C18", "C18Finish", "C05"],
    "noCooling": ["C18", "C18Finish"],
    "adaptAsWritten": ["C19Cap", "C19"],
    "staleOld": ["C06", "C06Done"],
    "resetOther": ["C06", "C06Done"],
    "noReset": ["C06", "C06Done"],
    "acceptUndef": ["C07", "C08Done", "C06Done"],
    "innerAsWritten": ["C20Work", "C20NoPanic"],
}
bad = 0
for variant, expect in EXPECT.items():
    cfg = ("SPECIFICATION Spec\nCONSTANTS\n  Variant = \"%s\"\n  ConvLimit = 1\n  StepsSet = {0, 1, 3}\n  InnerSet = {0, 1, 2}\n"
           "INVARIANTS %s\nPROPERTIES %s\nVIEW View\nCHECK_DEADLOCK FALSE\n" % (variant, ALL_INV, ALL_PROP))
    r = vp.run_tlc("MC_Optimiser", cfg, "selftest_opt_" + variant, workers=8, timeout=1200, xmx="8g", deque=False)
    got = [n for _, n in r["violations"]]
    tlc_err = "Error:" in r["text_tail"] and not got
    ok = (not got and not expect and not r.get("error")) or (expect and (any(g in expect for g in got) or (variant == "innerAsWritten" and tlc_err)))
    print("Optimiser variant %-16s -> %s %s" % (variant, got or ("evaluation error" if tlc_err else "no violation"), "ok" if ok else "UNEXPECTED"))
    bad += 0 if ok else 1
PEXP = {"spec": [], "shallowClone": ["Ownership", "InputUnchanged", "Deterministic"], "firstMax": ["ReduceTreeIndependent", "BestWritten"],
        "unseeded": ["Deterministic"], "noTruncate": ["FileIsBest"]}
for variant, expect in PEXP.items():
    r = vp.run_tlc("Pipeline", pipe_checks.mc_cfg(3, 2, 1, variant=variant, live=(variant == "spec"), M=2), "selftest_pipe_" + variant,
                   workers=4, timeout=1200, deque=False)
    got = [n for _, n in r["violations"]]
    ok = (not got and not expect) or (expect and any(g in expect for g in got))
    print("Pipeline  variant %-16s -> %s %s" % (variant, got or "no violation", "ok" if ok else "UNEXPECTED"))
    bad += 0 if ok else 1
sys.exit(1 if bad else 0)
