#!/bin/bash
# confirm every not-yet-confirmed variant, one property worktree at a time
for id in "$@"; do
  for v in ${MUTROOT:-/tmp/mut4}/$id/out/a ${MUTROOT:-/tmp/mut4}/$id/out/b; do
    [ -f $v/patch.diff ] || continue
    [ -f $v/confirm.json ] && continue
    /verif/tools/confirm_mutant.sh ${MUTROOT:-/tmp/mut4}/$id $v > /dev/null 2>&1
    echo "$id $(basename $v) $(python3 -c "import json;print(json.load(open('$v/confirm.json')).get('confirmed'))")"
  done
  rm -rf ${MUTROOT:-/tmp/mut4}/$id/target
done
