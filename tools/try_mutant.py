#!/usr/bin/env python3
"""try_mutant.py <patch.diff> <ID> [<ID>...] [--tier T]: apply a seeded change to /repo, run the
named checks, restore /repo. Prints one line per check: id, exit code, VIOLATION lines."""
import subprocess, sys, os
VROOT = os.path.dirname(os.path.dirname(os.path.abspath(__file__)))
REPO = os.environ.get("VERIF_REPO", "/repo")
args = sys.argv[1:]
tier = "quick"
if "--tier" in args:
    i = args.index("--tier"); tier = args[i + 1]; del args[i:i + 2]
patch, ids = os.path.abspath(args[0]), args[1:]
st = subprocess.run(["git", "-C", REPO, "status", "--porcelain", "--untracked-files=no"], capture_output=True, text=True).stdout
if st.strip():
    print(REPO, "is not clean:", st); sys.exit(2)
r = subprocess.run(["git", "-C", REPO, "apply", patch])
if r.returncode != 0:
    print("patch does not apply"); sys.exit(2)
try:
    for pid in ids:
        p = subprocess.run([VROOT + "/check", pid, "--tier", tier], capture_output=True, text=True, cwd=VROOT)
        v = [l for l in p.stdout.splitlines() if l.startswith("VIOLATION") or l.startswith("KNOWN")]
        print(pid, "exit=%d" % p.returncode, "; ".join(v)[:300])
        if p.returncode not in (0, 1) or "-v" in sys.argv:
            print(p.stderr[-1500:])
        else:
            print("   ", "\n    ".join([l for l in p.stderr.splitlines() if "formula" in l or "TOOL" in l][:4]))
finally:
    subprocess.run(["git", "-C", REPO, "checkout", "--", "."])
