#!/usr/bin/env python3
"""mutation_sample.py <results.jsonl> <count> <seed>: classic one-token mutants of /repo/src
(relational and arithmetic operator swaps, min/max, sin/cos, constants, dropped abs / negation),
sampled at random.  Each is applied to $VERIF_REPO, built, run through the repository's own
test suite (a mutant the tests kill is not interesting) and then through every check its file
can influence.  A mutant that survives tests *and* checks is listed for inspection (equivalent
mutant, property not concerned, or a gap)."""
import json, os, random, re, subprocess, sys
VROOT = os.path.dirname(os.path.dirname(os.path.abspath(__file__)))
REPO = os.environ.get("VERIF_REPO", "/repo")
res, count, seed = sys.argv[1], int(sys.argv[2]), int(sys.argv[3])
OPT = "C05 C06 C07 C08 C18 C19 C20 C04 C09 C10 C11".split()
CLI = "C09 C10 C11 C20".split()
GEO = "C01 C02 C03 C04 C08 C09 C10 C11 C12 C13 C14 C15 C16 C17".split()
OPS = [(r"<=", "<"), (r">=", ">"), (r"(?<![<>=!-])<(?![<=])", "<="), (r"(?<![<>=!-])>(?![>=])", ">="), (r"==", "!="), (r"!=", "=="),
       (r" \+ ", " - "), (r" - ", " + "), (r" \* ", " / "), (r" / ", " * "),
       (r"f64::min", "f64::max"), (r"f64::max", "f64::min"), (r"\.min\(", ".max("), (r"\.max\(", ".min("),
       (r"\.sin\(\)", ".cos()"), (r"\.cos\(\)", ".sin()"), (r"f64::sin", "f64::cos"), (r"f64::cos", "f64::sin"),
       (r"\.abs\(\)", ""), (r"\b0\.5\b", "0.25"), (r"\b2\.\b", "3."), (r"\b1\.\b(?!\.)", "2."), (r"\btrue\b", "false"), (r"\bfalse\b", "true"),
       (r"\.ceil\(\)", ".floor()"), (r"\.floor\(\)", ".ceil()"), (r"\.round\(\)", ".floor()"), (r"&&", "||"), (r"\|\|", "&&")]


def candidates():
    out = []
    for root, _, files in os.walk(os.path.join(REPO, "src")):
        for fn in files:
            if not fn.endswith(".rs") or fn in ("verif.rs", "ops_macros.rs"):
                continue
            path = os.path.join(root, fn)
            lines = open(path).read().split("\n")
            in_test = False
            skip_next = False
            for i, line in enumerate(lines):
                st = line.strip()
                if st.startswith("#[cfg(test)]"):
                    in_test = True
                if in_test or st.startswith("//") or st.startswith("#[") or "debug!" in st or "info!" in st or "trace!" in st:
                    if "packing_verif" in st:
                        skip_next = True
                    continue
                if skip_next or "crate::verif" in st:
                    skip_next = st.endswith("{") or not st.endswith(";")
                    continue
                code = line.split("//")[0]
                for k, (pat, rep) in enumerate(OPS):
                    for m in re.finditer(pat, code):
                        out.append((path, i, m.start(), m.end(), rep, code[m.start():m.end()]))
    return out


def sh(cmd, cwd=None, timeout=1800, env=None):
    try:
        return subprocess.run(cmd, cwd=cwd, capture_output=True, text=True, timeout=timeout, env=env)
    except subprocess.TimeoutExpired:
        class R:
            returncode, stdout, stderr = 124, "", "timeout"
        return R()


cands = candidates()
random.Random(seed).shuffle(cands)
done = 0
env = dict(os.environ, CARGO_TARGET_DIR=os.path.join(REPO, "target_mut"), CARGO_NET_OFFLINE="true")
for (path, i, a, b, rep, orig) in cands:
    if done >= count:
        break
    rel = os.path.relpath(path, REPO)
    text = open(path).read()
    lines = text.split("\n")
    mutated = lines[i][:a] + rep + lines[i][b:]
    if mutated == lines[i]:
        continue
    lines2 = list(lines)
    lines2[i] = mutated
    open(path, "w").write("\n".join(lines2))
    rec = {"file": rel, "line": i + 1, "from": lines[i].strip(), "to": mutated.strip()}
    try:
        r = sh(["cargo", "build", "--offline", "-q"], cwd=REPO, env=env, timeout=900)
        if r.returncode != 0:
            rec["outcome"] = "does not compile"
            continue
        r = sh(["cargo", "nextest", "run", "--workspace", "--no-fail-fast", "--offline"], cwd=REPO, env=env, timeout=1800)
        if r.returncode != 0:
            rec["outcome"] = "killed by the test suite"
            continue
        done += 1
        ids = CLI if rel == "src/main.rs" else OPT if rel in ("src/optimisation.rs", "src/basis.rs") else sorted(set(GEO) | (set(OPT) if rel.startswith("src/state/") or rel in ("src/site.rs", "src/cell.rs") else set()))
        hits = []
        sh([VROOT + "/check", "--build-only"], cwd=VROOT, timeout=1800)
        for pid in ids:
            p = sh([VROOT + "/check", pid], cwd=VROOT, timeout=3600)
            if p.returncode == 1:
                hits.append(pid)
                if len(hits) >= 2:
                    break
            elif p.returncode != 0:
                rec.setdefault("tool_errors", []).append(pid)
        rec["outcome"] = "detected" if hits else "SURVIVED tests and checks"
        rec["detected_by"] = hits
    finally:
        open(path, "w").write(text)
        with open(res, "a") as f:
            f.write(json.dumps(rec) + "\n")
        print(rec.get("outcome"), rel, i + 1, rec["to"][:80], rec.get("detected_by"), flush=True)
