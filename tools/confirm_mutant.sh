#!/bin/bash
# confirm_mutant.sh <worktree> <variant-dir>  -- verifies a seeded change in a scratch worktree:
#   (i) applies cleanly and the existing suite passes with it, (ii) the demo fails with it,
#   (iii) the demo passes without it.  Writes <variant-dir>/confirm.json.
WT=$1; V=$2
export CARGO_TARGET_DIR=$WT/target
cd $WT || exit 2
git checkout -q -- . ; rm -f tests/demo.rs
git apply --check $V/patch.diff || { echo '{"applies": false}' > $V/confirm.json; exit 1; }
git apply $V/patch.diff
cargo nextest run --workspace --no-fail-fast --offline -j 6 > $V/suite_with.log 2>&1; S=$?
SUITE=$(grep -E "tests run:" $V/suite_with.log | tail -1)
cp $V/demo.rs tests/demo.rs
cargo test --offline -j 6 --test demo > $V/demo_with.log 2>&1; DW=$?
git checkout -q -- . 
cargo test --offline -j 6 --test demo > $V/demo_without.log 2>&1; DWO=$?
rm -f tests/demo.rs
python3 - <<PY
import json
json.dump({"applies": True, "suite_exit_with_change": $S, "suite_summary": """$SUITE""".strip(),
           "demo_exit_with_change": $DW, "demo_exit_without_change": $DWO,
           "confirmed": ($S == 0 and $DW != 0 and $DWO == 0)}, open("$V/confirm.json", "w"), indent=1)
PY
cat $V/confirm.json
