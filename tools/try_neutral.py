#!/usr/bin/env python3
"""try_neutral.py <patch.diff> [<ID>...]: apply a property-PRESERVING change to /repo, run the
named checks (default: all 20) a few at a time, restore /repo.  Any exit other than 0 is an alarm
that has to be explained (false alarm of the machinery, or the change does break a property)."""
import subprocess, sys, os
VROOT = os.path.dirname(os.path.dirname(os.path.abspath(__file__)))
REPO = os.environ.get("VERIF_REPO", "/repo")
import concurrent.futures as cf
args = sys.argv[1:]
patch, ids = os.path.abspath(args[0]), args[1:] or ["C%02d" % i for i in range(1, 21)]
st = subprocess.run(["git", "-C", REPO, "status", "--porcelain", "--untracked-files=no"], capture_output=True, text=True).stdout
if st.strip():
    print(REPO, "is not clean:", st); sys.exit(2)
if subprocess.run(["git", "-C", REPO, "apply", patch]).returncode != 0:
    print("patch does not apply"); sys.exit(2)


def one(pid):
    p = subprocess.run([VROOT + "/check", pid], capture_output=True, text=True, cwd=VROOT)
    v = [l for l in p.stdout.splitlines() if l.startswith("VIOLATION") or l.startswith("KNOWN")]
    notes = [l for l in p.stderr.splitlines() if "formula" in l or "TOOL" in l or "error" in l.lower()][:4]
    return pid, p.returncode, v, notes


try:
    # build once so that the parallel checks do not all wait on the same cargo lock
    subprocess.run([VROOT + "/check", "--build-only"], capture_output=True, text=True, cwd=VROOT)
    bad = 0
    with cf.ThreadPoolExecutor(max_workers=5) as ex:
        for pid, rc, v, notes in ex.map(one, ids):
            if rc != 0:
                bad += 1
                print("ALARM", pid, "exit=%d" % rc, "; ".join(v)[:200])
                for n in notes:
                    print("     ", n[:300])
            else:
                print("ok   ", pid)
    print("alarms:", bad)
finally:
    subprocess.run(["git", "-C", REPO, "checkout", "--", "."])
