//! C13: the pair law and the molecule sum, replayed from TLC's enumerations (spec/LJ.tla,
//! spec/LJMol.tla).

use std::fs;
use std::io::{BufRead, BufReader, Write};

use nalgebra::{Matrix3, Point2};
use packing::traits::*;
use packing::{LJShape2, Transform2, LJ2};
use serde_json::{json, Value};

fn motions() -> Vec<Matrix3<f64>> {
    vec![
        Matrix3::identity(),
        Matrix3::new(0.6, -0.8, 0.3, 0.8, 0.6, -1.7, 0., 0., 1.),
        Matrix3::new(1., 0., -2.25, 0., -1., 0.5, 0., 0., 1.),
        Matrix3::new(-5. / 13., 12. / 13., 10., 12. / 13., 5. / 13., -7., 0., 0., 1.),
    ]
}

fn mv(m: &Matrix3<f64>, x: f64, y: f64) -> Point2<f64> {
    Point2::new(m[(0, 0)] * x + m[(0, 1)] * y + m[(0, 2)], m[(1, 0)] * x + m[(1, 1)] * y + m[(1, 2)])
}

/// the library's own action of a motion on a particle, in its eight spellings
fn moved_by_library(p: &LJ2, m: &Matrix3<f64>, k: usize) -> LJ2 {
    let t = Transform2::from(*m);
    match k % 8 {
        0 => &t * p,
        1 => t.clone() * p,
        2 => &t * p.clone(),
        3 => t.clone() * p.clone(),
        4 => p * &t,
        5 => p.clone() * &t,
        6 => p * t.clone(),
        _ => p.clone() * t.clone(),
    }
}

pub fn lj(input: &str, out: &str) {
    std::panic::set_hook(Box::new(|_| {}));
    let f = BufReader::new(fs::File::open(input).expect("input"));
    let mut checked = 0usize;
    let mut evaluations = 0usize;
    let mut mol_cases = 0usize;
    let mut by_case = std::collections::BTreeMap::new();
    let mut failures: Vec<Value> = vec![];
    let gi = |v: &Value, k: &str| v[k].as_i64().unwrap_or(0) as f64;
    for line in f.lines() {
        let line = line.unwrap();
        let e: Value = match serde_json::from_str(&line) {
            Ok(v) => v,
            Err(_) => continue,
        };
        if e.get("k").is_some() {
            // molecule case
            mol_cases += 1;
            let pts = |key: &str| -> Vec<(f64, f64)> {
                e[key]
                    .as_array()
                    .unwrap()
                    .iter()
                    .map(|p| (p[0].as_i64().unwrap() as f64, p[1].as_i64().unwrap() as f64))
                    .collect()
            };
            // ca2 / cb2: squared cutoffs of the particles of A and of B; c2: the pair's (LJMol!PairCut)
            let ca2 = e["c2"].as_i64().unwrap();
            let cb2 = e["cb2"].as_i64().unwrap_or(ca2);
            let c2 = e["pc2"].as_i64().unwrap_or(ca2);
            let cut = |c: i64| if c == 0 { None } else { Some((c as f64).sqrt()) };
            if ca2 != cb2 {
                // molecules with different cutoffs: the sum over the particle pairs of the real pair
                // energy, from either side, before and after a common motion
                let mkc = |v: &[(f64, f64)], m: &Matrix3<f64>, c: Option<f64>| LJShape2 {
                    name: "m".into(),
                    items: v.iter().map(|(x, y)| LJ2 { position: mv(m, *x, *y), sigma: 1., epsilon: 1., cutoff: c }).collect(),
                };
                for m in motions() {
                    let (a, b) = (mkc(&pts("a"), &m, cut(ca2)), mkc(&pts("b"), &m, cut(cb2)));
                    let mut expect = 0.;
                    let mut scale = 0.;
                    for p in a.items.iter() {
                        for q in b.items.iter() {
                            let t = p.energy(q);
                            expect += t;
                            scale += t.abs();
                        }
                    }
                    let (eab, eba) = (a.energy(&b), b.energy(&a));
                    evaluations += 2;
                    let tol = 1e-9 * f64::max(scale, 1e-3);
                    if !((eab - expect).abs() <= tol) || !((eba - expect).abs() <= tol) {
                        failures.push(json!({"what": "energy of two molecules with different cutoffs differs from the sum over their particle pairs (or between the two sides)",
                            "state": e, "observed": {"e_ab": eab, "e_ba": eba, "sum_over_pairs": expect}}));
                        break;
                    }
                }
                continue;
            }
            let cutoff = cut(c2);
            let mk = |v: &[(f64, f64)], m: &Matrix3<f64>| LJShape2 {
                name: "m".into(),
                items: v
                    .iter()
                    .map(|(x, y)| LJ2 {
                        position: mv(m, *x, *y),
                        sigma: 1.,
                        epsilon: 1.,
                        cutoff,
                    })
                    .collect(),
            };
            // expected: sum over TLC's pair list
            let mut expect = 0.;
            let mut scale = 0.;
            for row in e["k"].as_array().unwrap() {
                for k in row.as_array().unwrap() {
                    let k = k.as_i64().unwrap() as f64;
                    let q = 1. / (k * k * k);
                    let term = if c2 == 0 {
                        4. * (q * q - q)
                    } else if k < c2 as f64 {
                        let qc = 1. / ((c2 as f64).powi(3));
                        4. * (q * q - q) - 4. * (qc * qc - qc)
                    } else {
                        0.
                    };
                    expect += term;
                    scale += term.abs();
                }
            }
            for m in motions() {
                let (a, b) = (mk(&pts("a"), &m), mk(&pts("b"), &m));
                let (eab, eba) = (a.energy(&b), b.energy(&a));
                evaluations += 2;
                let tol = 1e-9 * f64::max(scale, 1e-3);
                if !((eab - expect).abs() <= tol) || !((eba - expect).abs() <= tol) {
                    failures.push(json!({"what": "energy of two molecules differs from the sum over their particle pairs",
                        "state": e, "observed": {"e_ab": eab, "e_ba": eba, "expected": expect}}));
                    break;
                }
                // the same molecules moved by the library (Shape::transform), and with a well
                // depth other than one on every particle (the sum is linear in it)
                let id = Matrix3::identity();
                let t = Transform2::from(m);
                let (a0, b0) = (mk(&pts("a"), &id), mk(&pts("b"), &id));
                let et = a0.transform(&t).energy(&b0.transform(&t));
                let deep = |s: &LJShape2| LJShape2 { name: s.name.clone(), items: s.items.iter().map(|p| LJ2 { epsilon: 2.5, ..p.clone() }).collect() };
                let ed = deep(&a0).transform(&t).energy(&deep(&b0).transform(&t));
                evaluations += 2;
                if !((et - expect).abs() <= tol) || !((ed - 2.5 * expect).abs() <= 2.5 * tol) {
                    failures.push(json!({"what": "energy of two molecules moved by Shape::transform differs from the sum over their particle pairs",
                        "state": e, "observed": {"e_moved": et, "e_deep_moved": ed, "expected": expect}}));
                    break;
                }
            }
            continue;
        }
        checked += 1;
        *by_case.entry(e["case"].as_str().unwrap_or("").to_string()).or_insert(0usize) += 1;
        let eps = gi(&e, "en") / gi(&e, "ed");
        let q = gi(&e, "qa") / gi(&e, "qb");
        let qc = if gi(&e, "ca") == 0. { None } else { Some(gi(&e, "ca") / gi(&e, "cb")) };
        let expect = gi(&e, "num") / gi(&e, "den");
        'outer: for sigma in [0.5, 1.0, 2.0, 1.275112].iter() {
            let r = sigma * q.powf(-1. / 6.);
            let cutoff = qc.map(|c| sigma * c.powf(-1. / 6.));
            for m in motions() {
                for alpha in [0.0f64, 0.7, 2.9].iter() {
                    let a = LJ2 { position: mv(&m, 0.3, -0.2), sigma: *sigma, epsilon: eps, cutoff };
                    let b = LJ2 {
                        position: mv(&m, 0.3 + r * alpha.cos(), -0.2 + r * alpha.sin()),
                        sigma: *sigma,
                        epsilon: eps,
                        cutoff,
                    };
                    let (eab, eba) = (a.energy(&b), b.energy(&a));
                    evaluations += 2;
                    let tol = 1e-9 * f64::max(expect.abs(), eps);
                    if !((eab - expect).abs() <= tol) || !((eba - expect).abs() <= tol) {
                        failures.push(json!({"what": "pair energy differs from the shifted truncated 12-6 law",
                            "state": e, "observed": {"sigma": sigma, "r": r, "e_ab": eab, "e_ba": eba, "expected": expect}}));
                        break 'outer;
                    }
                    // the energy is a function of the two particles only: evaluations of pairs
                    // that differ in exactly one of (epsilon, sigma, cutoff, distance) in between
                    // do not change it (the law is linear in epsilon: the first one is checked too)
                    let base = (LJ2 { position: Point2::new(0.3, -0.2), sigma: *sigma, epsilon: eps, cutoff },
                                LJ2 { position: Point2::new(0.3 + r * alpha.cos(), -0.2 + r * alpha.sin()), sigma: *sigma, epsilon: eps, cutoff });
                    let with = |f: &dyn Fn(&mut LJ2)| { let (mut x, mut y) = (base.0.clone(), base.1.clone()); f(&mut x); f(&mut y); x.energy(&y) };
                    let e3 = with(&|p| p.epsilon = 3. * eps);
                    let again1 = a.energy(&b);
                    let _ = with(&|p| p.sigma = 1.5 * sigma);
                    let again2 = a.energy(&b);
                    let _ = with(&|p| p.cutoff = Some(p.cutoff.map(|c| 1.25 * c).unwrap_or(3.5 * sigma)));
                    let again3 = a.energy(&b);
                    let _ = with(&|p| p.cutoff = None);
                    let again4 = a.energy(&b);
                    evaluations += 8;
                    if !((e3 - 3. * expect).abs() <= 3. * tol) {
                        failures.push(json!({"what": "pair energy is not linear in epsilon (evaluated after the same pair with another epsilon)",
                            "state": e, "observed": {"sigma": sigma, "r": r, "e": e3, "expected": 3. * expect}}));
                        break 'outer;
                    }
                    if [again1, again2, again3, again4].iter().any(|x| x.to_bits() != eab.to_bits()) {
                        failures.push(json!({"what": "pair energy depends on the evaluations made before it",
                            "state": e, "observed": {"sigma": sigma, "r": r, "first": eab, "again": [again1, again2, again3, again4]}}));
                        break 'outer;
                    }
                    // a common rigid motion applied with the library's own operators
                    let k = checked + (*alpha * 10.) as usize;
                    let (la, lb) = (moved_by_library(&base.0, &m, k), moved_by_library(&base.1, &m, k + 3));
                    let el = la.energy(&lb);
                    evaluations += 1;
                    if !((el - expect).abs() <= tol) {
                        failures.push(json!({"what": "pair energy changes under a common rigid motion applied with Transform2 * LJ2 / LJ2 * Transform2",
                            "state": e, "observed": {"sigma": sigma, "r": r, "spelling": [k % 8, (k + 3) % 8], "e": el, "expected": expect}}));
                        break 'outer;
                    }
                }
            }
        }
    }
    // the law has no length or energy scale of its own: the same cases in very small and very
    // large units (argon in SI: sigma 3.4e-10 m, epsilon 1.65e-21 J); positions of the order of
    // the distance itself, motions that keep the origin
    let mut scaled = 0usize;
    {
        let f = BufReader::new(fs::File::open(input).expect("input"));
        let gi = |v: &Value, k: &str| v[k].as_i64().unwrap_or(0) as f64;
        'cases: for line in f.lines() {
            let e: Value = match serde_json::from_str(&line.unwrap()) {
                Ok(v) => v,
                Err(_) => continue,
            };
            if e.get("k").is_some() || e.get("qa").is_none() {
                continue;
            }
            let q = gi(&e, "qa") / gi(&e, "qb");
            let qc = if gi(&e, "ca") == 0. { None } else { Some(gi(&e, "ca") / gi(&e, "cb")) };
            let unit = gi(&e, "num") / gi(&e, "den") / (gi(&e, "en") / gi(&e, "ed"));
            for (sigma, eps) in [(3.4e-10, 1.65e-21), (1e-5, 1.0), (1e5, 3.0), (2.5e-9, 1e-20)].iter() {
                let r = sigma * q.powf(-1. / 6.);
                let cutoff = qc.map(|c| sigma * c.powf(-1. / 6.));
                let expect = unit * eps;
                for (c, sn, flip) in [(1.0f64, 0.0f64, 1.0f64), (0.6, 0.8, 1.), (-5. / 13., 12. / 13., -1.)].iter() {
                    let rot = |x: f64, y: f64| Point2::new(c * x - sn * y * flip, sn * x + c * y * flip);
                    let a = LJ2 { position: rot(0., 0.), sigma: *sigma, epsilon: *eps, cutoff };
                    let b = LJ2 { position: rot(r * 0.8, r * 0.6), sigma: *sigma, epsilon: *eps, cutoff };
                    let (eab, eba) = (a.energy(&b), b.energy(&a));
                    evaluations += 2;
                    scaled += 1;
                    // r is realised in floating point: 12 ulps of r are 1e-14 of the steep branch
                    let tol = 1e-9 * f64::max(expect.abs(), *eps);
                    if !((eab - expect).abs() <= tol) || !((eba - expect).abs() <= tol) {
                        failures.push(json!({"what": "pair energy differs from the shifted truncated 12-6 law in other units",
                            "state": e, "observed": {"sigma": sigma, "epsilon": eps, "r": r, "e_ab": eab, "e_ba": eba, "expected": expect}}));
                        break 'cases;
                    }
                }
            }
        }
    }
    // unlike particles: symmetric in the two particles, whatever the mixing rule
    let mut unlike = 0usize;
    let sig = [0.5, 1.0, 1.275112, 2.0];
    let epss = [0.5, 1.0, 2.0];
    let cuts = [None, Some(2.5), Some(3.5)];
    for (i, s1) in sig.iter().enumerate() {
        for s2 in sig.iter().skip(i) {
            for e1 in epss.iter() {
                for e2 in epss.iter() {
                    for c1 in cuts.iter() {
                        for c2 in cuts.iter() {
                            for r in [0.6, 0.95, 1.3, 2.0, 2.7, 3.2, 3.6].iter() {
                                let a = LJ2 { position: Point2::new(0.1, 0.2), sigma: *s1, epsilon: *e1, cutoff: *c1 };
                                let b = LJ2 { position: Point2::new(0.1 + r, 0.2), sigma: *s2, epsilon: *e2, cutoff: *c2 };
                                let (eab, eba) = (a.energy(&b), b.energy(&a));
                                unlike += 1;
                                evaluations += 2;
                                if !((eab - eba).abs() <= 1e-12 * f64::max(1., eab.abs())) {
                                    failures.push(json!({"what": "pair energy is not symmetric in the two particles",
                                        "state": {"s1": s1, "s2": s2, "e1": e1, "e2": e2, "c1": c1, "c2": c2, "r": r},
                                        "observed": {"e_ab": eab, "e_ba": eba}}));
                                }
                            }
                        }
                    }
                }
            }
        }
    }
    let res = json!({"C13": {"checked": checked, "nontrivial": checked, "by_case": by_case, "molecule_cases": mol_cases,
        "unlike_pairs": unlike, "scaled_unit_cases": scaled, "evaluations": evaluations, "failures": failures.len(),
        "first_failures": failures.iter().take(10).collect::<Vec<_>>()}});
    let mut fo = fs::File::create(out).expect("out");
    writeln!(fo, "{}", res).unwrap();
}
