//! C01 on states off every grid: real optimisation histories of hard states.  The optimiser is
//! the adversary of the overlap test (an undetected overlap raises the score), so every proposal
//! the real code scored is re-examined by the exhaustive oracle.

use std::fs;
use std::io::Write;

use rand::prelude::*;
use serde_json::{json, Value};

use crate::obs::Raw;
use crate::optrace::Req;
use crate::oracle::{lattice_verdict, Verdict};
use crate::states::family_of;
use crate::suites::{self, ShapeSpec, GROUPS};

/// inverse of states::full_vector
pub fn patch(base: &Value, fam: &str, v: &[f64]) -> Value {
    let mut j = base.clone();
    let nsites = j["occupied_sites"].as_array().map(|a| a.len()).unwrap_or(0);
    let mut i = 0;
    j["cell"]["length"] = json!(v[i]);
    i += 1;
    let nfree_cell = match fam {
        "Monoclinic" => 3,
        "Orthorhombic" => 2,
        _ => 1,
    };
    if nfree_cell >= 2 {
        j["cell"]["ratio"] = json!(v[i]);
        i += 1;
    }
    if nfree_cell >= 3 {
        j["cell"]["angle"] = json!(v[i]);
        i += 1;
    }
    for s in 0..nsites {
        j["occupied_sites"][s]["x"] = json!(v[i]);
        j["occupied_sites"][s]["y"] = json!(v[i + 1]);
        j["occupied_sites"][s]["angle"] = json!(v[i + 2]);
        i += 3;
    }
    if nfree_cell == 2 {
        j["cell"]["angle"] = json!(v[i]);
    } else if nfree_cell == 1 {
        j["cell"]["ratio"] = json!(v[i]);
        j["cell"]["angle"] = json!(v[i + 1]);
    }
    j
}

fn base_json(gname: &str, shape: &ShapeSpec) -> Option<Value> {
    use packing::{LineShape, MolecularShape2, PackedState};
    let g = suites::group(gname);
    match shape {
        ShapeSpec::Polygon(n) => serde_json::to_value(&PackedState::from_group(LineShape::polygon(*n).ok()?, &g).ok()?).ok(),
        ShapeSpec::Radial(v) => serde_json::to_value(
            &PackedState::from_group(LineShape::from_radial("radial", v.clone()).ok()?, &g).ok()?,
        )
        .ok(),
        ShapeSpec::Circle => serde_json::to_value(&PackedState::from_group(MolecularShape2::circle(), &g).ok()?).ok(),
        ShapeSpec::Trimer(r, a, d) => serde_json::to_value(
            &PackedState::from_group(MolecularShape2::from_trimer(*r, *a, *d), &g).ok()?,
        )
        .ok(),
    }
}

pub fn c01_histories(out: &str, thorough: bool, seed: u64) {
    std::panic::set_hook(Box::new(|_| {}));
    let mut rng = suites::seeded(seed, 4242);
    let shapes = vec![
        ShapeSpec::Polygon(4),
        ShapeSpec::Polygon(3),
        ShapeSpec::Polygon(5),
        ShapeSpec::Polygon(6),
        ShapeSpec::Radial(vec![1., 0.6, 1., 0.6]),
        ShapeSpec::Circle,
        ShapeSpec::Trimer(0.637556, 120., 1.),
        ShapeSpec::Trimer(0.2, 180., 3.),
        ShapeSpec::Trimer(0.1, 180., 5.),
        ShapeSpec::Trimer(0.3, 150., 2.),
        ShapeSpec::Trimer(0.2, 120., 1.),
        // polygons with many sides (shallow corner-into-edge contacts)
        ShapeSpec::Polygon(33),
        ShapeSpec::Polygon(24),
    ];
    let count = if thorough { 462 } else { 91 };
    let steps = if thorough { 4000 } else { 1200 };
    let mut histories = 0usize;
    let mut scored = 0usize;
    let mut rejected_overlap = 0usize;
    let mut touch = 0usize;
    let mut oracle_skipped = 0usize;
    let mut failures: Vec<Value> = vec![];
    let mut samples: Vec<String> = vec![];
    for k in 0..count {
        let gname = GROUPS[k % GROUPS.len()];
        let shape = shapes[(k / GROUPS.len()) % shapes.len()].clone();
        let base = match base_json(gname, &shape) {
            Some(b) => b,
            None => continue,
        };
        let fam = family_of(gname);
        let idx = rng.gen_range(0, 100);
        let max_step = *[0.01, 0.05, 0.2, 0.5].choose(&mut rng).unwrap();
        let user = Req {
            steps,
            inner: 200,
            kt_start: *[0.1, 0.02, 0.5].choose(&mut rng).unwrap(),
            kt_finish: Some(0.0005),
            kt_ratio: None,
            max_step,
            convergence: None,
            seed: idx,
        };
        let mut reqs = suites::cli_chain(&user, idx);
        reqs[0].steps = 400;
        let mut runs = vec![];
        let desc = format!("#{} history {} {}", k, gname, shape.describe());
        suites::run_chain_for(&desc, gname, true, &shape, &reqs, &mut runs);
        histories += 1;
        if samples.len() < 3 {
            samples.push(format!("{} | {}", desc, user.describe()));
        }
        for run in runs.iter() {
            for r in run.raw.iter() {
                if let Raw::Score(vec, s) = r {
                    if s.is_none() {
                        rejected_overlap += 1;
                        continue;
                    }
                    scored += 1;
                    let j = patch(&base, fam, vec);
                    match lattice_verdict(&j, gname) {
                        Some((Verdict::Overlap(depth), who)) => {
                            if failures.len() < 20 {
                                failures.push(json!({"what": format!("scored although images overlap ({})", who),
                                    "state": {"run": run.desc, "group": gname, "depth": depth,
                                              "score": s, "state_json": j}}));
                            } else {
                                failures.push(json!({"what": "scored although images overlap", "state": null}));
                            }
                        }
                        Some((Verdict::Touch, _)) => touch += 1,
                        Some((Verdict::Apart, _)) => {}
                        None => oracle_skipped += 1,
                    }
                }
            }
        }
    }
    // two occupied sites per cell (library API: initialise with several Wyckoff sites)
    let mut two_site_histories = 0usize;
    for k in 0..(if thorough { 60 } else { 12 }) {
        use packing::traits::State;
        use packing::wallpaper::{Wallpaper, WyckoffSite};
        use packing::{LineShape, MolecularShape2, PackedState};
        let gname = GROUPS[k % GROUPS.len()];
        let g = suites::group(gname);
        let site = match WyckoffSite::new(&g) {
            Ok(s) => s,
            Err(_) => continue,
        };
        let fam = family_of(gname);
        let idx = rng.gen_range(0, 100);
        let user = Req { steps, inner: 200, kt_start: 0.1, kt_finish: Some(0.0005), kt_ratio: None,
                         max_step: *[0.05, 0.3].choose(&mut rng).unwrap(), convergence: None, seed: idx };
        let mut reqs = suites::cli_chain(&user, idx);
        reqs[0].steps = 400;
        let mut runs = vec![];
        let desc = format!("#{} two-site history {}", k, gname);
        // the second site starts half a cell away from the first
        let (base, ok) = if k % 2 == 0 {
            let st = PackedState::initialise(LineShape::polygon(4).unwrap(), Wallpaper::new(&g), &[site.clone(), site.clone()]);
            let mut j = serde_json::to_value(&st).unwrap();
            j["occupied_sites"][1]["x"] = json!(j["occupied_sites"][0]["x"].as_f64().unwrap() + 0.5);
            j["occupied_sites"][1]["angle"] = json!(0.4);
            match serde_json::from_value::<PackedState<LineShape>>(j.clone()) {
                Ok(s) if s.score().is_some() => {
                    suites::chain(&desc, gname, s, &reqs, &mut runs);
                    (j, true)
                }
                _ => (j, false),
            }
        } else {
            let st = PackedState::initialise(MolecularShape2::from_trimer(0.637556, 120., 1.), Wallpaper::new(&g), &[site.clone(), site.clone()]);
            let mut j = serde_json::to_value(&st).unwrap();
            j["occupied_sites"][1]["x"] = json!(j["occupied_sites"][0]["x"].as_f64().unwrap() + 0.5);
            match serde_json::from_value::<PackedState<MolecularShape2>>(j.clone()) {
                Ok(s) if s.score().is_some() => {
                    suites::chain(&desc, gname, s, &reqs, &mut runs);
                    (j, true)
                }
                _ => (j, false),
            }
        };
        if !ok {
            continue;
        }
        two_site_histories += 1;
        histories += 1;
        for run in runs.iter() {
            for r in run.raw.iter() {
                if let Raw::Score(vec, s) = r {
                    if s.is_none() {
                        rejected_overlap += 1;
                        continue;
                    }
                    scored += 1;
                    let j = patch(&base, fam, vec);
                    match lattice_verdict(&j, gname) {
                        Some((Verdict::Overlap(depth), who)) => failures.push(json!({"what": format!("scored although images overlap ({})", who),
                            "state": {"run": run.desc, "group": gname, "depth": depth, "score": s, "state_json": j}})),
                        Some((Verdict::Touch, _)) => touch += 1,
                        Some((Verdict::Apart, _)) => {}
                        None => oracle_skipped += 1,
                    }
                }
            }
        }
    }
    let res = json!({"histories": histories, "two_site_histories": two_site_histories, "scored_states_checked": scored,
        "proposals_rejected_as_overlapping": rejected_overlap, "touching_not_asserted": touch,
        "oracle_skipped": oracle_skipped, "sample_histories": samples,
        "failures_total": failures.len(),
        "first_failures": failures.iter().filter(|f| !f["state"].is_null()).take(10).collect::<Vec<_>>()});
    let mut fo = fs::File::create(out).expect("out");
    writeln!(fo, "{}", res).unwrap();
}

/// C04 on optimised states: symmetry residual of the crystal a chain of stages returns.
/// For every reference operation q of the group: W_cart = M W M^-1 must be orthogonal (q is a
/// rigid motion or reflection of the current cell) and must map the set of placements onto
/// itself modulo the lattice, linear parts included.  (Floating point; tolerance 1e-9.)
pub fn c04_histories(out: &str, thorough: bool, seed: u64) {
    use crate::oracle::ref_ops;
    use nalgebra::Matrix3;
    use packing::{LJShape2, LineShape, MolecularShape2, PackedState, PotentialState, Transform2};
    std::panic::set_hook(Box::new(|_| {}));
    let mut rng = suites::seeded(seed, 404);
    let count = if thorough { 280 } else { 42 };
    let mut checked = 0usize;
    let mut worst: f64 = 0.;
    let mut failures: Vec<Value> = vec![];
    let mut samples: Vec<String> = vec![];
    for k in 0..count {
        let gname = GROUPS[k % GROUPS.len()];
        let hard = (k / GROUPS.len()) % 2 == 0;
        let shape = if hard {
            [ShapeSpec::Polygon(4), ShapeSpec::Polygon(5), ShapeSpec::Trimer(0.637556, 120., 1.), ShapeSpec::Circle]
                [(k / 14) % 4]
                .clone()
        } else {
            [ShapeSpec::Trimer(0.637556, 120., 1.), ShapeSpec::Circle][(k / 14) % 2].clone()
        };
        let idx = rng.gen_range(0, 100);
        let user = Req {
            steps: if thorough { 2000 } else { 600 },
            inner: 100,
            kt_start: *[0.1, 0.5].choose(&mut rng).unwrap(),
            kt_finish: None,
            kt_ratio: Some(0.1),
            max_step: *[0.02, 0.1, 0.4].choose(&mut rng).unwrap(),
            convergence: None,
            seed: idx,
        };
        let mut reqs = suites::cli_chain(&user, idx);
        reqs[0].steps = 300;
        let mut runs = vec![];
        let desc = format!("#{} {} {} {}", k, gname, if hard { "hard" } else { "lj" }, shape.describe());
        suites::run_chain_for(&desc, gname, hard, &shape, &reqs, &mut runs);
        let last = match runs.last() {
            Some(r) if r.panicked.is_none() => r,
            _ => continue,
        };
        // rebuild the returned state from its parameter vector
        let base = if hard {
            base_json(gname, &shape)
        } else {
            let g = suites::group(gname);
            match &shape {
                ShapeSpec::Circle => PotentialState::from_group(LJShape2::circle(), &g)
                    .ok()
                    .and_then(|s| serde_json::to_value(&s).ok()),
                ShapeSpec::Trimer(r, a, d) => PotentialState::from_group(LJShape2::from_trimer(*r, *a, *d), &g)
                    .ok()
                    .and_then(|s| serde_json::to_value(&s).ok()),
                _ => None,
            }
        };
        let base = match base {
            Some(b) => b,
            None => continue,
        };
        let j = patch(&base, family_of(gname), &last.end_vec);
        let carts: Option<Vec<Transform2>> = if hard {
            match &shape {
                ShapeSpec::Polygon(_) | ShapeSpec::Radial(_) => serde_json::from_value::<PackedState<LineShape>>(j.clone())
                    .ok()
                    .map(|s| s.cartesian_positions().collect()),
                _ => serde_json::from_value::<PackedState<MolecularShape2>>(j.clone())
                    .ok()
                    .map(|s| s.cartesian_positions().collect()),
            }
        } else {
            serde_json::from_value::<PotentialState<LJShape2>>(j.clone())
                .ok()
                .map(|s| s.cartesian_positions().collect())
        };
        let carts = match carts {
            Some(c) => c,
            None => continue,
        };
        let a = j["cell"]["length"].as_f64().unwrap();
        let b = a * j["cell"]["ratio"].as_f64().unwrap();
        let th = j["cell"]["angle"].as_f64().unwrap();
        // lattice matrix M (columns A, B) and its inverse
        let (m11, m12, m21, m22) = (a, b * th.cos(), 0., b * th.sin());
        let det = m11 * m22 - m12 * m21;
        let inv = [m22 / det, -m12 / det, -m21 / det, m11 / det];
        let mut residual: f64 = 0.;
        let mats: Vec<Matrix3<f64>> = carts.iter().map(|t| (*t).into()).collect();
        for q in ref_ops(gname) {
            // W in cartesian space
            let mw = [m11 * q[0] + m12 * q[2], m11 * q[1] + m12 * q[3], m21 * q[0] + m22 * q[2], m21 * q[1] + m22 * q[3]];
            let wc = [
                mw[0] * inv[0] + mw[1] * inv[2],
                mw[0] * inv[1] + mw[1] * inv[3],
                mw[2] * inv[0] + mw[3] * inv[2],
                mw[2] * inv[1] + mw[3] * inv[3],
            ];
            // orthogonality: Wc^T Wc = I
            let o = [
                wc[0] * wc[0] + wc[2] * wc[2] - 1.,
                wc[0] * wc[1] + wc[2] * wc[3],
                wc[1] * wc[1] + wc[3] * wc[3] - 1.,
            ];
            for x in o.iter() {
                residual = residual.max(x.abs());
            }
            let tc = [m11 * q[4] + m12 * q[5], m21 * q[4] + m22 * q[5]];
            for p in mats.iter() {
                // image of placement p under (Wc, tc)
                let pos = [wc[0] * p[(0, 2)] + wc[1] * p[(1, 2)] + tc[0], wc[2] * p[(0, 2)] + wc[3] * p[(1, 2)] + tc[1]];
                let lin = [
                    wc[0] * p[(0, 0)] + wc[1] * p[(1, 0)],
                    wc[0] * p[(0, 1)] + wc[1] * p[(1, 1)],
                    wc[2] * p[(0, 0)] + wc[3] * p[(1, 0)],
                    wc[2] * p[(0, 1)] + wc[3] * p[(1, 1)],
                ];
                // nearest placement modulo the lattice
                let mut best = std::f64::INFINITY;
                for r in mats.iter() {
                    let d = [pos[0] - r[(0, 2)], pos[1] - r[(1, 2)]];
                    // fractional difference
                    let f = [inv[0] * d[0] + inv[1] * d[1], inv[2] * d[0] + inv[3] * d[1]];
                    let fr = [f[0] - f[0].round(), f[1] - f[1].round()];
                    let back = [m11 * fr[0] + m12 * fr[1], m21 * fr[0] + m22 * fr[1]];
                    let dl = [
                        lin[0] - r[(0, 0)],
                        lin[1] - r[(0, 1)],
                        lin[2] - r[(1, 0)],
                        lin[3] - r[(1, 1)],
                    ];
                    let mut e = back[0].abs().max(back[1].abs());
                    for x in dl.iter() {
                        e = e.max(x.abs());
                    }
                    best = best.min(e);
                }
                residual = residual.max(best);
            }
        }
        checked += 1;
        worst = worst.max(residual);
        if samples.len() < 3 {
            samples.push(format!("{} | residual {:.2e}", desc, residual));
        }
        if !(residual <= 1e-9) {
            failures.push(json!({"what": format!("optimised crystal lacks the symmetry of {} (residual {:.3e})", gname, residual),
                "state": {"run": desc, "state_json": j}}));
        }
    }
    let offered = offered_group_cells(seed, &mut failures, &mut worst);
    let res = json!({"optimised_states_checked": checked, "offered_group_states_checked": offered, "worst_residual": worst, "samples": samples,
        "failures": failures.len(), "first_failures": failures.iter().take(10).collect::<Vec<_>>()});
    let mut fo = fs::File::create(out).expect("out");
    writeln!(fo, "{}", res).unwrap();
}

/// Every group the library offers by name (the seven, and any that is added later): after an
/// optimisation each listed operation, expressed in Cartesian space with the state's own cell,
/// is a rigid motion or reflection (C W C^-1 orthogonal, C = [A B]) - the cell is still in the
/// crystal family of its group - for hard and LJ states.
pub fn offered_group_cells(seed: u64, failures: &mut Vec<Value>, worst_out: &mut f64) -> usize {
    use nalgebra::Matrix3;
    use packing::traits::State;
    use packing::{LJShape2, LineShape, PackedState, PotentialState};
    let mut worst = *worst_out;
    let mut offered = 0usize;
    for name in packing::wallpaper::WallpaperGroups::variants().iter() {
        let wg = match name.parse::<packing::wallpaper::WallpaperGroups>().ok().and_then(|g| packing::wallpaper::get_wallpaper_group(g).ok()) {
            Some(g) => g,
            None => continue,
        };
        for variant in 0..4u64 {
            let mut b = packing::BuildOptimiser::default();
            b.seed(seed * 10 + variant).steps(400).inner_steps(100).kt_start(0.2).kt_ratio(Some(0.3)).max_step_size(0.2);
            // a group may start its site on one of its own mirror lines (no score): nothing to optimise
            let j = std::panic::catch_unwind(std::panic::AssertUnwindSafe(|| {
                if variant % 2 == 0 {
                    PackedState::from_group(LineShape::polygon(3 + variant as usize).unwrap(), &wg)
                        .ok()
                        .filter(|st| st.score().is_some())
                        .and_then(|st| serde_json::to_value(&b.build().optimise_state(st)).ok())
                } else {
                    PotentialState::from_group(LJShape2::from_trimer(0.637556, 120., 1.), &wg)
                        .ok()
                        .filter(|st| st.score().is_some())
                        .and_then(|st| serde_json::to_value(&b.build().optimise_state(st)).ok())
                }
            }))
            .unwrap_or(None);
            let j = match j {
                Some(j) => j,
                None => continue,
            };
            offered += 1;
            let a = j["cell"]["length"].as_f64().unwrap_or(1.);
            let bl = a * j["cell"]["ratio"].as_f64().unwrap_or(1.);
            let t = j["cell"]["angle"].as_f64().unwrap_or(1.);
            let c = nalgebra::Matrix2::new(a, bl * t.cos(), 0., bl * t.sin());
            let cinv = match c.try_inverse() {
                Some(m) => m,
                None => continue,
            };
            let site: Option<packing::wallpaper::WyckoffSite> = serde_json::from_value(j["occupied_sites"][0]["wyckoff"].clone()).ok();
            let mut worst_op: f64 = 0.;
            if let Some(site) = site {
                for op in site.symmetries.iter() {
                    let m: Matrix3<f64> = (*op).into();
                    let w = nalgebra::Matrix2::new(m[(0, 0)], m[(0, 1)], m[(1, 0)], m[(1, 1)]);
                    let r = c * w * cinv;
                    let d = r.transpose() * r - nalgebra::Matrix2::identity();
                    worst_op = worst_op.max(d.iter().fold(0., |acc: f64, x| acc.max(x.abs())));
                }
            }
            worst = worst.max(worst_op);
            if !(worst_op <= 1e-9) {
                failures.push(json!({"what": format!("after an optimisation an operation of {} is not a rigid motion of the cell (deviation {:.3e})", name, worst_op),
                    "state": {"group": name, "kind": if variant % 2 == 0 { "hard" } else { "lj" }, "cell": j["cell"]}}));
            }
        }
    }
    *worst_out = worst;
    offered
}

/// C08, last sentence: every supported group, combined with any shape of well-defined area,
/// starts from a valid state: a defined finite score, every parameter inside its declared range.
pub fn initial_states(out: &str) {
    use packing::traits::State;
    use packing::{LJShape2, LineShape, MolecularShape2, PackedState, PotentialState};
    std::panic::set_hook(Box::new(|_| {}));
    let mut checked = 0usize;
    let mut failures: Vec<Value> = vec![];
    let mut judge = |desc: String, gname: &str, j: Option<Value>, score: Option<Option<f64>>| {
        checked += 1;
        let fam = family_of(gname);
        let ok_score = matches!(score, Some(Some(s)) if s.is_finite());
        let mut in_range = false;
        if let Some(j) = &j {
            let v = crate::states::full_vector(j, fam);
            let b = crate::states::declared_bounds(j, fam);
            in_range = v.iter().zip(b.iter()).all(|(x, (lo, hi))| *x >= *lo && *x <= *hi);
            // the declared family of the state is the family of the group
            if j["cell"]["family"].as_str() != Some(fam) {
                in_range = false;
            }
        }
        if !ok_score || !in_range {
            failures.push(json!({"what": format!("initial state is not valid (score {:?}, parameters in range: {})", score, in_range),
                "state": {"state": desc}}));
        }
    };
    for gname in GROUPS.iter() {
        let g = suites::group(gname);
        for n in 3..=12usize {
            let r = std::panic::catch_unwind(|| {
                let st = PackedState::from_group(LineShape::polygon(n).ok()?, &g).ok()?;
                Some((serde_json::to_value(&st).ok(), st.score()))
            })
            .ok()
            .flatten();
            judge(format!("{} hard polygon {}", gname, n), gname, r.as_ref().and_then(|x| x.0.clone()), r.map(|x| x.1));
        }
        let r = std::panic::catch_unwind(|| {
            let st = PackedState::from_group(MolecularShape2::circle(), &g).ok()?;
            Some((serde_json::to_value(&st).ok(), st.score()))
        })
        .ok()
        .flatten();
        judge(format!("{} hard circle", gname), gname, r.as_ref().and_then(|x| x.0.clone()), r.map(|x| x.1));
        let r = std::panic::catch_unwind(|| {
            let st = PotentialState::from_group(LJShape2::circle(), &g).ok()?;
            Some((serde_json::to_value(&st).ok(), st.score()))
        })
        .ok()
        .flatten();
        judge(format!("{} lj circle", gname), gname, r.as_ref().and_then(|x| x.0.clone()), r.map(|x| x.1));
        for radius in [0.2, 0.5, 0.637556, 1.0, 1.4].iter() {
            for angle in [0., 60., 90., 120., 180., 360.].iter() {
                for dist in [0., 0.2, 0.6, 1.0, 2.0].iter() {
                    let (radius, angle, dist) = (*radius, *angle, *dist);
                    let g2 = suites::group(gname);
                    let r = std::panic::catch_unwind(move || {
                        let st = PackedState::from_group(MolecularShape2::from_trimer(radius, angle, dist), &g2).ok()?;
                        Some((serde_json::to_value(&st).ok(), st.score()))
                    })
                    .ok()
                    .flatten();
                    judge(format!("{} hard trimer({}, {}, {})", gname, radius, angle, dist), gname,
                          r.as_ref().and_then(|x| x.0.clone()), r.map(|x| x.1));
                    let g3 = suites::group(gname);
                    let r = std::panic::catch_unwind(move || {
                        let st = PotentialState::from_group(LJShape2::from_trimer(radius, angle, dist), &g3).ok()?;
                        Some((serde_json::to_value(&st).ok(), st.score()))
                    })
                    .ok()
                    .flatten();
                    judge(format!("{} lj trimer({}, {}, {})", gname, radius, angle, dist), gname,
                          r.as_ref().and_then(|x| x.0.clone()), r.map(|x| x.1));
                }
            }
        }
    }
    // discs that touch (or all but touch): outer discs tangent to the central one (distance =
    // 1 + radius, as a sum and as a decimal literal one ulp away from it) and to each other
    for gname in ["p1", "p2gg"].iter() {
        let mut cases: Vec<(f64, f64, f64)> = vec![];
        for radius in [0.87f64, 0.902, 0.955, 0.637556, 0.3, 0.45, 1.0, 1.3].iter() {
            for angle in [60.0f64, 90., 120., 180.].iter() {
                let lit: f64 = format!("{:.6}", 1. + radius).parse().unwrap_or(1. + radius);
                cases.push((*radius, *angle, 1. + radius));
                cases.push((*radius, *angle, lit));
                cases.push((*radius, *angle, radius / (angle.to_radians() / 2.).sin()));
            }
        }
        for (radius, angle, dist) in cases {
            let g2 = suites::group(gname);
            let r = std::panic::catch_unwind(move || {
                let st = PackedState::from_group(MolecularShape2::from_trimer(radius, angle, dist), &g2).ok()?;
                Some((serde_json::to_value(&st).ok(), st.score()))
            })
            .ok()
            .flatten();
            judge(format!("{} hard trimer({}, {}, {}) with touching discs", gname, radius, angle, dist), gname,
                  r.as_ref().and_then(|x| x.0.clone()), r.map(|x| x.1));
        }
    }
    // the cell never leaves the crystal family of its group, for every group offered by name
    drop(judge);
    let mut worst = 0.;
    let mut cell_failures: Vec<Value> = vec![];
    let offered = offered_group_cells(1, &mut cell_failures, &mut worst);
    for f in cell_failures {
        failures.push(json!({"what": f["what"], "state": {"state": f["state"].to_string()}}));
    }
    let res = json!({"initial_states_checked": checked, "offered_group_states_optimised": offered, "failures": failures.len(),
        "first_failures": failures.iter().take(10).collect::<Vec<_>>()});
    let mut fo = fs::File::create(out).expect("out");
    writeln!(fo, "{}", res).unwrap();
}
