//! C01 on states off every grid: real optimisation histories of hard states.  The optimiser is
//! the adversary of the overlap test (an undetected overlap raises the score), so every proposal
//! the real code scored is re-examined by the exhaustive oracle.

use std::fs;
use std::io::Write;

use rand::prelude::*;
use serde_json::{json, Value};

use crate::obs::Raw;
use crate::optrace::Req;
use crate::oracle::{lattice_verdict, Verdict};
use crate::states::family_of;
use crate::suites::{self, ShapeSpec, GROUPS};

/// inverse of states::full_vector
pub fn patch(base: &Value, fam: &str, v: &[f64]) -> Value {
    let mut j = base.clone();
    let nsites = j["occupied_sites"].as_array().map(|a| a.len()).unwrap_or(0);
    let mut i = 0;
    j["cell"]["length"] = json!(v[i]);
    i += 1;
    let nfree_cell = match fam {
        "Monoclinic" => 3,
        "Orthorhombic" => 2,
        _ => 1,
    };
    if nfree_cell >= 2 {
        j["cell"]["ratio"] = json!(v[i]);
        i += 1;
    }
    if nfree_cell >= 3 {
        j["cell"]["angle"] = json!(v[i]);
        i += 1;
    }
    for s in 0..nsites {
        j["occupied_sites"][s]["x"] = json!(v[i]);
        j["occupied_sites"][s]["y"] = json!(v[i + 1]);
        j["occupied_sites"][s]["angle"] = json!(v[i + 2]);
        i += 3;
    }
    if nfree_cell == 2 {
        j["cell"]["angle"] = json!(v[i]);
    } else if nfree_cell == 1 {
        j["cell"]["ratio"] = json!(v[i]);
        j["cell"]["angle"] = json!(v[i + 1]);
    }
    j
}

fn base_json(gname: &str, shape: &ShapeSpec) -> Option<Value> {
    use packing::{LineShape, MolecularShape2, PackedState};
    let g = suites::group(gname);
    match shape {
        ShapeSpec::Polygon(n) => serde_json::to_value(&PackedState::from_group(LineShape::polygon(*n).ok()?, &g).ok()?).ok(),
        ShapeSpec::Radial(v) => serde_json::to_value(
            &PackedState::from_group(LineShape::from_radial("radial", v.clone()).ok()?, &g).ok()?,
        )
        .ok(),
        ShapeSpec::Circle => serde_json::to_value(&PackedState::from_group(MolecularShape2::circle(), &g).ok()?).ok(),
        ShapeSpec::Trimer(r, a, d) => serde_json::to_value(
            &PackedState::from_group(MolecularShape2::from_trimer(*r, *a, *d), &g).ok()?,
        )
        .ok(),
    }
}

pub fn c01_histories(out: &str, thorough: bool, seed: u64) {
    std::panic::set_hook(Box::new(|_| {}));
    let mut rng = suites::seeded(seed, 4242);
    let shapes = vec![
        ShapeSpec::Polygon(4),
        ShapeSpec::Polygon(3),
        ShapeSpec::Polygon(5),
        ShapeSpec::Polygon(6),
        ShapeSpec::Radial(vec![1., 0.6, 1., 0.6]),
        ShapeSpec::Circle,
        ShapeSpec::Trimer(0.637556, 120., 1.),
        ShapeSpec::Trimer(0.2, 180., 3.),
        ShapeSpec::Trimer(0.1, 180., 5.),
        ShapeSpec::Trimer(0.3, 150., 2.),
    ];
    let count = if thorough { 420 } else { 56 };
    let steps = if thorough { 4000 } else { 1200 };
    let mut histories = 0usize;
    let mut scored = 0usize;
    let mut rejected_overlap = 0usize;
    let mut touch = 0usize;
    let mut oracle_skipped = 0usize;
    let mut failures: Vec<Value> = vec![];
    let mut samples: Vec<String> = vec![];
    for k in 0..count {
        let gname = GROUPS[k % GROUPS.len()];
        let shape = shapes[(k / GROUPS.len()) % shapes.len()].clone();
        let base = match base_json(gname, &shape) {
            Some(b) => b,
            None => continue,
        };
        let fam = family_of(gname);
        let idx = rng.gen_range(0, 100);
        let max_step = *[0.01, 0.05, 0.2, 0.5].choose(&mut rng).unwrap();
        let user = Req {
            steps,
            inner: 200,
            kt_start: *[0.1, 0.02, 0.5].choose(&mut rng).unwrap(),
            kt_finish: Some(0.0005),
            kt_ratio: None,
            max_step,
            convergence: None,
            seed: idx,
        };
        let mut reqs = suites::cli_chain(&user, idx);
        reqs[0].steps = 400;
        let mut runs = vec![];
        let desc = format!("#{} history {} {}", k, gname, shape.describe());
        suites::run_chain_for(&desc, gname, true, &shape, &reqs, &mut runs);
        histories += 1;
        if samples.len() < 3 {
            samples.push(format!("{} | {}", desc, user.describe()));
        }
        for run in runs.iter() {
            for r in run.raw.iter() {
                if let Raw::Score(vec, s) = r {
                    if s.is_none() {
                        rejected_overlap += 1;
                        continue;
                    }
                    scored += 1;
                    let j = patch(&base, fam, vec);
                    match lattice_verdict(&j, gname) {
                        Some((Verdict::Overlap(depth), who)) => {
                            if failures.len() < 20 {
                                failures.push(json!({"what": format!("scored although images overlap ({})", who),
                                    "state": {"run": run.desc, "group": gname, "depth": depth,
                                              "score": s, "state_json": j}}));
                            } else {
                                failures.push(json!({"what": "scored although images overlap", "state": null}));
                            }
                        }
                        Some((Verdict::Touch, _)) => touch += 1,
                        Some((Verdict::Apart, _)) => {}
                        None => oracle_skipped += 1,
                    }
                }
            }
        }
    }
    let res = json!({"histories": histories, "scored_states_checked": scored,
        "proposals_rejected_as_overlapping": rejected_overlap, "touching_not_asserted": touch,
        "oracle_skipped": oracle_skipped, "sample_histories": samples,
        "failures_total": failures.len(),
        "first_failures": failures.iter().filter(|f| !f["state"].is_null()).take(10).collect::<Vec<_>>()});
    let mut fo = fs::File::create(out).expect("out");
    writeln!(fo, "{}", res).unwrap();
}
