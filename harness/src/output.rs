//! C11: output fidelity.  `svg`: TLC prints, per grid state, the placements and their eight
//! nearest images (spec/MC_Crystal.tla, SvgUses); the <use> elements of the real as_svg() output
//! must be exactly those.  `json`: serialise -> deserialise -> equal score bits, equal placement
//! bits, identical re-serialisation, on the same grid states and on random finite parameter values.

use std::fs;
use std::io::{BufRead, BufReader, Write};

use nalgebra::Matrix3;
use packing::traits::*;
use packing::{LJShape2, LineShape, MolecularShape2, PackedState, PotentialState, Transform2};
use rand::prelude::*;
use serde::de::DeserializeOwned;
use serde::Serialize;
use serde_json::{json, Value};

use crate::suites::{self, group, GROUPS};

fn parse_uses(svg: &str) -> Vec<Vec<[f64; 6]>> {
    // <use> elements grouped by what they refer to: the reference used most often is the shape
    // (copies x images), the next one the cell outline; ids, attribute order and separators are
    // not assumed
    let mut by_ref: std::collections::BTreeMap<String, Vec<[f64; 6]>> = std::collections::BTreeMap::new();
    for part in svg.split("<use").skip(1) {
        let tag = match part.find('>') {
            Some(i) => &part[..i],
            None => continue,
        };
        let href = match tag.find("href=\"") {
            Some(i) => tag[i + 6..].split('"').next().unwrap_or("").to_string(),
            None => continue,
        };
        let a = if let Some(i) = tag.find("matrix(") {
            let m = &tag[i + 7..];
            let m = match m.find(')') {
                Some(i) => &m[..i],
                None => continue,
            };
            let v: Vec<f64> = m.split(|c: char| c.is_whitespace() || c == ',').filter_map(|x| x.parse().ok()).collect();
            if v.len() != 6 {
                continue;
            }
            [v[0], v[1], v[2], v[3], v[4], v[5]]
        } else if let Some(i) = tag.find("translate(") {
            let m = &tag[i + 10..];
            let m = match m.find(')') {
                Some(i) => &m[..i],
                None => continue,
            };
            let v: Vec<f64> = m.split(|c: char| c.is_whitespace() || c == ',').filter_map(|x| x.parse().ok()).collect();
            [1., 0., 0., 1., *v.get(0).unwrap_or(&0.), *v.get(1).unwrap_or(&0.)]
        } else {
            [1., 0., 0., 1., 0., 0.]
        };
        by_ref.entry(href).or_default().push(a);
    }
    by_ref.into_iter().map(|(_, v)| v).collect()
}

/// the drawing holds one group of <use> elements at `mol` and another one at `cell`
fn uses_match(groups: &[Vec<[f64; 6]>], mol: &[[f64; 6]], cell: Option<&[[f64; 6]]>, tol: f64) -> (bool, bool) {
    for (i, g) in groups.iter().enumerate() {
        if multiset_eq(g, mol, tol) {
            let cell_ok = match cell {
                None => true,
                Some(c) => groups.iter().enumerate().any(|(j, h)| j != i && multiset_eq(h, c, tol)),
            };
            if cell_ok {
                return (true, true);
            }
        }
    }
    (groups.iter().any(|g| multiset_eq(g, mol, tol)), false)
}

fn multiset_eq(real: &[[f64; 6]], expect: &[[f64; 6]], tol: f64) -> bool {
    if real.len() != expect.len() {
        return false;
    }
    let mut used = vec![false; real.len()];
    for e in expect {
        let mut found = false;
        for (i, r) in real.iter().enumerate() {
            if !used[i] && r.iter().zip(e.iter()).all(|(a, b)| (a - b).abs() <= tol) {
                used[i] = true;
                found = true;
                break;
            }
        }
        if !found {
            return false;
        }
    }
    true
}

fn place(j: &mut Value, e: &Value) {
    let gi = |k: &str| e[k].as_i64().unwrap_or(0) as f64;
    let (u, d) = (gi("U"), gi("D"));
    let (ax, bx, by) = (gi("ax"), gi("bx"), gi("by"));
    j["cell"]["length"] = json!(ax / u);
    j["cell"]["ratio"] = json!((bx * bx + by * by).sqrt() / ax);
    j["cell"]["angle"] = json!(f64::atan2(by, bx));
    let a = f64::atan2(gi("s"), gi("c"));
    j["occupied_sites"][0]["x"] = json!(gi("sx") / d);
    j["occupied_sites"][0]["y"] = json!(gi("sy") / d);
    j["occupied_sites"][0]["angle"] = json!(if a < 0. { a + 2. * std::f64::consts::PI } else { a });
}

fn svg_of<S: State + Serialize + DeserializeOwned>(st: &S, e: &Value) -> Option<String> {
    let mut j = serde_json::to_value(st).ok()?;
    place(&mut j, e);
    let st: S = serde_json::from_value(j).ok()?;
    Some(st.as_svg().to_string())
}

/// The p1 description with one occupied site per copy (Crystal!AsSites) of the state described by
/// `e`, built from the one-site p1 state `st`.
fn multi_site<S: State + Serialize + DeserializeOwned>(st: &S, e: &Value) -> Option<S> {
    let mut j = serde_json::to_value(st).ok()?;
    place(&mut j, e);
    let d = e["D"].as_i64()? as f64;
    let proto = j["occupied_sites"][0].clone();
    let mut sites = vec![];
    for s in e["sites"].as_array()? {
        let v: Vec<f64> = s.as_array()?.iter().map(|x| x.as_i64().unwrap_or(0) as f64).collect();
        let a = f64::atan2(v[3], v[2]);
        let mut site = proto.clone();
        site["x"] = json!(v[0] / d);
        site["y"] = json!(v[1] / d);
        site["angle"] = json!(if a < 0. { a + 2. * std::f64::consts::PI } else { a });
        sites.push(site);
    }
    j["occupied_sites"] = Value::Array(sites);
    serde_json::from_value(j).ok()
}

/// JSON round trip of one state: (ok, what went wrong)
fn roundtrip<S, F>(st: &S, placements: F) -> Result<(), String>
where
    S: State + Serialize + DeserializeOwned,
    F: Fn(&S) -> Vec<Transform2>,
{
    let s1 = serde_json::to_string(st).map_err(|e| e.to_string())?;
    let st2: S = serde_json::from_str(&s1).map_err(|e| format!("cannot be read back: {}", e))?;
    let s2 = serde_json::to_string(&st2).map_err(|e| e.to_string())?;
    if s1 != s2 {
        return Err("re-serialisation differs".into());
    }
    let (a, b) = (st.score(), st2.score());
    if a.map(f64::to_bits) != b.map(f64::to_bits) {
        return Err(format!("score changes from {:?} to {:?}", a, b));
    }
    let (p1, p2) = (placements(st), placements(&st2));
    if p1.len() != p2.len() {
        return Err("number of placements changes".into());
    }
    for (x, y) in p1.iter().zip(p2.iter()) {
        let (mx, my): (Matrix3<f64>, Matrix3<f64>) = ((*x).into(), (*y).into());
        if mx.iter().zip(my.iter()).any(|(u, v)| u.to_bits() != v.to_bits()) {
            return Err("a placement changes".into());
        }
    }
    Ok(())
}

pub fn svg(input: &str, out: &str) {
    std::panic::set_hook(Box::new(|_| {}));
    let f = BufReader::new(fs::File::open(input).expect("input"));
    let mut checked = 0usize;
    let mut uses_checked = 0usize;
    let mut json_checked = 0usize;
    let mut multi_checked = 0usize;
    let mut failures: Vec<Value> = vec![];
    for line in f.lines() {
        let line = line.unwrap();
        let e: Value = match serde_json::from_str(&line) {
            Ok(v) => v,
            Err(_) => continue,
        };
        let gi = |k: &str| e[k].as_i64().unwrap_or(0) as f64;
        let g = group(e["g"].as_str().unwrap_or("p1"));
        let (u, d, h) = (gi("U"), gi("D"), gi("h"));
        // expected <use> lists from TLC's integers
        let mut exp_mol: Vec<[f64; 6]> = vec![];
        for up in e["uses"].as_array().unwrap() {
            let l: Vec<f64> = up["lin"].as_array().unwrap().iter().map(|v| v.as_i64().unwrap() as f64).collect();
            for at in up["at"].as_array().unwrap() {
                let at: Vec<f64> = at.as_array().unwrap().iter().map(|v| v.as_i64().unwrap() as f64).collect();
                // matrix(a b c d e f) = (l11 l21 l12 l22 px py)
                exp_mol.push([l[0] / h, l[2] / h, l[1] / h, l[3] / h, at[2] / (d * u * h), at[3] / (d * u * h)]);
            }
        }
        let exp_cell: Vec<[f64; 6]> = e["cells"]
            .as_array()
            .unwrap()
            .iter()
            .map(|c| {
                let c: Vec<f64> = c.as_array().unwrap().iter().map(|v| v.as_i64().unwrap() as f64).collect();
                [1., 0., 0., 1., c[2] / (d * u), c[3] / (d * u)]
            })
            .collect();
        let tol = 1e-12 * f64::max(1., 3. * gi("ax") / u);
        let shape = e["shape"].as_str().unwrap_or("");
        let mut svgs: Vec<(&str, Option<String>)> = vec![];
        // the same description as a hard state and as a Lennard-Jones state
        match shape {
            "square" | "kite" | "kite2" | "quad" => {
                let radial = match shape {
                    "square" => vec![1.; 4],
                    "kite" => vec![1., 0.5, 1., 0.5],
                    "kite2" => vec![0.5, 1., 0.5, 1.],
                    _ => vec![1., 0.5, 0.8, 0.3],
                };
                if let Ok(st) = PackedState::from_group(LineShape::from_radial(shape, radial).unwrap(), &g) {
                    svgs.push(("hard", svg_of(&st, &e)));
                    let mut j = serde_json::to_value(&st).unwrap();
                    place(&mut j, &e);
                    match serde_json::from_value::<PackedState<LineShape>>(j) {
                        Ok(st) => {
                            json_checked += 1;
                            if let Err(w) = roundtrip(&st, |s| s.cartesian_positions().collect()) {
                                failures.push(json!({"what": format!("JSON round trip: {}", w), "state": e}));
                            }
                        }
                        // every grid state is a legal state (coordinates on or inside their bounds)
                        Err(err) => failures.push(json!({"what": format!("a legal state cannot be read from its JSON form: {}", err), "state": e})),
                    }
                }
            }
            _ => {
                let sh = if shape == "circle" {
                    MolecularShape2::circle()
                } else {
                    MolecularShape2::from_trimer(gi("sr") / u, 180., gi("sd") / u)
                };
                if let Ok(st) = PackedState::from_group(sh, &g) {
                    svgs.push(("hard", svg_of(&st, &e)));
                }
            }
        }
        if let Ok(st) = PotentialState::from_group(LJShape2::from_trimer(0.637556, 120., 1.), &g) {
            svgs.push(("lj", svg_of(&st, &e)));
            let mut j = serde_json::to_value(&st).unwrap();
            place(&mut j, &e);
            match serde_json::from_value::<PotentialState<LJShape2>>(j) {
                Ok(st) => {
                    json_checked += 1;
                    if let Err(w) = roundtrip(&st, |s| s.cartesian_positions().collect()) {
                        failures.push(json!({"what": format!("JSON round trip (LJ): {}", w), "state": e}));
                    }
                }
                Err(err) => failures.push(json!({"what": format!("a legal LJ state cannot be read from its JSON form: {}", err), "state": e})),
            }
        }
        // the same crystal as a p1 state with one site per copy: same drawing (each body turned by
        // RotLin instead of Lin), and the several-site JSON round-trips
        let mut multi_svgs: Vec<Option<String>> = vec![];
        if e["multi"].as_i64() == Some(1) && e["sites"].as_array().map(|a| a.len()).unwrap_or(0) > 1 {
            let p1 = group("p1");
            macro_rules! multi {
                ($st:expr, $t:ty) => {
                    if let Ok(st) = $st {
                        match multi_site::<$t>(&st, &e) {
                            Some(m) => {
                                multi_checked += 1;
                                if let Err(w) = roundtrip(&m, |s| s.cartesian_positions().collect()) {
                                    failures.push(json!({"what": format!("JSON round trip (several sites): {}", w), "state": e}));
                                }
                                multi_svgs.push(Some(m.as_svg().to_string()));
                            }
                            None => failures.push(json!({"what": "a legal state with several sites cannot be read from its JSON form", "state": e})),
                        }
                    }
                };
            }
            match shape {
                "square" | "kite" | "kite2" | "quad" => {
                    let radial = match shape {
                        "square" => vec![1.; 4],
                        "kite" => vec![1., 0.5, 1., 0.5],
                        "kite2" => vec![0.5, 1., 0.5, 1.],
                        _ => vec![1., 0.5, 0.8, 0.3],
                    };
                    multi!(PackedState::from_group(LineShape::from_radial(shape, radial).unwrap(), &p1), PackedState<LineShape>);
                }
                _ => {
                    let sh = if shape == "circle" {
                        MolecularShape2::circle()
                    } else {
                        MolecularShape2::from_trimer(gi("sr") / u, 180., gi("sd") / u)
                    };
                    multi!(PackedState::from_group(sh, &p1), PackedState<MolecularShape2>);
                }
            }
            // a Lennard-Jones disc has every symmetry
            multi!(PotentialState::from_group(LJShape2::circle(), &p1), PotentialState<LJShape2>);
        }
        let exp_rot: Vec<[f64; 6]> = exp_mol.iter().map(|m| [m[0], m[1], -m[1], m[0], m[4], m[5]]).collect();
        for s in multi_svgs.into_iter().flatten() {
            let groups = parse_uses(&s);
            uses_checked += exp_rot.len();
            let (mol_ok, cell_ok) = uses_match(&groups, &exp_rot, Some(&exp_cell), tol);
            if !mol_ok || !cell_ok {
                failures.push(json!({"what": "SVG of the several-site description does not place the shape at the state's transforms and nearest images",
                    "state": e, "observed": {"use_groups": groups.iter().map(|g| g.len()).collect::<Vec<_>>(), "expected": exp_rot.len()}}));
                break;
            }
        }
        checked += 1;
        for (kind, s) in svgs {
            let s = match s {
                Some(s) => s,
                None => continue,
            };
            let groups = parse_uses(&s);
            uses_checked += exp_mol.len();
            let (mol_ok, cell_ok) = uses_match(&groups, &exp_mol, Some(&exp_cell), tol);
            if !mol_ok {
                failures.push(json!({"what": format!("SVG ({}) does not place the shape at the state's transforms and nearest images", kind),
                    "state": e, "observed": {"use_groups": groups.iter().map(|g| g.len()).collect::<Vec<_>>(), "expected": exp_mol.len()}}));
                break;
            }
            if !cell_ok {
                failures.push(json!({"what": format!("SVG ({}) does not draw the cell at the lattice translations", kind), "state": e}));
                break;
            }
        }
    }
    let res = json!({"C11": {"checked": checked, "nontrivial": checked, "use_elements_checked": uses_checked,
        "json_roundtrips": json_checked, "several_site_states": multi_checked, "failures": failures.len(),
        "first_failures": failures.iter().take(10).collect::<Vec<_>>()}});
    let mut fo = fs::File::create(out).expect("out");
    writeln!(fo, "{}", res).unwrap();
}

/// The SVG of a state against the state itself: the shape drawn at every Cartesian placement
/// translated by n A + m B for n, m in {-1, 0, 1}, the lattice vectors taken from the cell's
/// parameters (A = (a, 0), B = a ratio (cos t, sin t)).
fn svg_matches(svg: &str, placements: &[Transform2], cell: &Value) -> Result<(), String> {
    let a = cell["length"].as_f64().ok_or("cell length")?;
    let b = a * cell["ratio"].as_f64().ok_or("cell ratio")?;
    let t = cell["angle"].as_f64().ok_or("cell angle")?;
    let (av, bv) = ((a, 0.), (b * t.cos(), b * t.sin()));
    let mut expect: Vec<[f64; 6]> = vec![];
    for p in placements {
        let m: Matrix3<f64> = (*p).into();
        for n in -1..=1 {
            for k in -1..=1 {
                let (n, k) = (n as f64, k as f64);
                expect.push([m[(0, 0)], m[(1, 0)], m[(0, 1)], m[(1, 1)], m[(0, 2)] + n * av.0 + k * bv.0, m[(1, 2)] + n * av.1 + k * bv.1]);
            }
        }
    }
    let groups = parse_uses(svg);
    if !uses_match(&groups, &expect, None, 1e-9 * f64::max(1., 3. * a)).0 {
        return Err(format!("SVG does not place the shape at the state's transforms and nearest lattice images ({:?} <use> elements, {} expected)",
            groups.iter().map(|g| g.len()).collect::<Vec<_>>(), expect.len()));
    }
    Ok(())
}

/// JSON fidelity on finite parameter values off every grid (17 significant digits, tiny, huge,
/// negative zero): harness-driven, token equality as everywhere else.
pub fn json_random(out: &str, thorough: bool, seed: u64) {
    std::panic::set_hook(Box::new(|_| {}));
    let mut rng = suites::seeded(seed, 1111);
    let count = if thorough { 20000 } else { 3000 };
    let mut checked = 0usize;
    let mut failures: Vec<Value> = vec![];
    let special = [0.5, -0.5, 0.0, -0.0, 1e-300, 5e-324, 1e300, 0.1, 1. / 3., -0.41443653894765564, 0.49999999999999994, 6.283185307179586];
    for k in 0..count {
        let gname = GROUPS[k % GROUPS.len()];
        let g = group(gname);
        let pick = |rng: &mut rand_pcg::Pcg64Mcg, lo: f64, hi: f64| -> f64 {
            match rng.gen_range(0, 10) {
                0 => special[rng.gen_range(0, special.len())],
                1 => f64::from_bits(rng.gen::<u64>() & 0x7fef_ffff_ffff_ffff), // any finite magnitude
                // values that are exact in single precision but have a long decimal expansion
                2 => (lo as f32 + (hi - lo) as f32 * rng.gen::<f32>()) as f64,
                _ => lo + (hi - lo) * rng.gen::<f64>(),
            }
        };
        // the cell stays inside its declared range (an exact image search costs 1/cell area);
        // site coordinates and orientation take any finite value
        let single = |rng: &mut rand_pcg::Pcg64Mcg, lo: f64, hi: f64| -> f64 {
            if rng.gen_range(0, 4) == 0 {
                (lo as f32 + (hi - lo) as f32 * rng.gen::<f32>()) as f64
            } else {
                lo + (hi - lo) * rng.gen::<f64>()
            }
        };
        let vals = [
            single(&mut rng, 0.5, 20.),
            single(&mut rng, 0.1, 1.),
            single(&mut rng, 0.5236, 1.5707),
            pick(&mut rng, -0.5, 0.5),
            pick(&mut rng, -0.5, 0.5),
            pick(&mut rng, 0., 6.3),
        ];
        let edit = |j: &mut Value| {
            j["cell"]["length"] = json!(vals[0]);
            j["cell"]["ratio"] = json!(vals[1]);
            j["cell"]["angle"] = json!(vals[2]);
            j["occupied_sites"][0]["x"] = json!(vals[3]);
            j["occupied_sites"][0]["y"] = json!(vals[4]);
            j["occupied_sites"][0]["angle"] = json!(vals[5]);
        };
        let r = if k % 2 == 0 {
            let st = PackedState::from_group(LineShape::polygon(3 + k % 5).unwrap(), &g).unwrap();
            let mut j = serde_json::to_value(&st).unwrap();
            edit(&mut j);
            match serde_json::from_value::<PackedState<LineShape>>(j) {
                Ok(st) => std::panic::catch_unwind(std::panic::AssertUnwindSafe(|| {
                    roundtrip(&st, |s| s.cartesian_positions().collect())
                }))
                .unwrap_or(Err("panic".into())),
                Err(err) => Err(format!("cannot be read from JSON: {}", err)),
            }
        } else {
            let st = PotentialState::from_group(LJShape2::from_trimer(0.637556, 120., 1.), &g).unwrap();
            let mut j = serde_json::to_value(&st).unwrap();
            edit(&mut j);
            match serde_json::from_value::<PotentialState<LJShape2>>(j) {
                Ok(st) => std::panic::catch_unwind(std::panic::AssertUnwindSafe(|| {
                    roundtrip(&st, |s| s.cartesian_positions().collect())
                }))
                .unwrap_or(Err("panic".into())),
                Err(err) => Err(format!("cannot be read from JSON: {}", err)),
            }
        };
        checked += 1;
        if let Err(w) = r {
            failures.push(json!({"what": format!("JSON round trip: {}", w), "state": {"group": gname, "values": vals.iter().map(|v| format!("{:e}", v)).collect::<Vec<_>>()}}));
        }
    }
    // all four crystal families: user-defined groups (hexagonal and tetragonal cells are not among
    // the seven built-in groups but are constructible through the library), as constructed and
    // after a few optimisation steps
    use packing::{BuildOptimiser, CrystalFamily, WallpaperGroup};
    let fams = [
        ("p3", CrystalFamily::Hexagonal, vec!["x,y", "-y,x-y", "-x+y,-x"]),
        ("p4", CrystalFamily::Tetragonal, vec!["x,y", "-x,-y", "-y,x", "y,-x"]),
        ("p1", CrystalFamily::Monoclinic, vec!["x,y"]),
        ("pm", CrystalFamily::Orthorhombic, vec!["x,y", "-x,y"]),
        // more copies per cell than any built-in group has
        ("c2mm", CrystalFamily::Orthorhombic, vec!["x,y", "-x,-y", "-x,y", "x,-y", "x+1/2,y+1/2", "-x+1/2,-y+1/2", "-x+1/2,y+1/2", "x+1/2,-y+1/2"]),
        ("p4mm", CrystalFamily::Tetragonal, vec!["x,y", "-x,-y", "-y,x", "y,-x", "-x,y", "x,-y", "y,x", "-y,-x"]),
    ];
    // shapes far from unit size: what the library writes it must be able to read back
    for (k, radius) in [5e4, 1e6, 4e3, 1e-6, 3.7e-3].iter().enumerate() {
        let r = std::panic::catch_unwind(std::panic::AssertUnwindSafe(|| -> Result<(), String> {
            let shape = LineShape::from_radial("sized", vec![*radius; 3 + k]).map_err(|e| e.to_string())?;
            let wg = packing::wallpaper::get_wallpaper_group(packing::wallpaper::WallpaperGroups::p2).map_err(|e| e.to_string())?;
            let st = PackedState::from_group(shape, &wg).map_err(|e| e.to_string())?;
            roundtrip(&st, |s| s.cartesian_positions().collect())
        }))
        .unwrap_or(Err("panic".into()));
        checked += 1;
        if let Err(w) = r {
            failures.push(json!({"what": format!("JSON round trip of a polygon of circumradius {:e}: {}", radius, w), "state": {"group": "p2", "values": [format!("{:e}", radius)]}}));
        }
    }
    let mut family_states = 0usize;
    for (name, fam, ops) in fams.iter() {
        let wg = WallpaperGroup { name, family: *fam, wyckoff_str: ops.clone() };
        for variant in 0..4 {
            let r = std::panic::catch_unwind(std::panic::AssertUnwindSafe(|| -> Result<(), String> {
                if variant % 2 == 0 {
                    let st = PackedState::from_group(LineShape::polygon(4 + variant).unwrap(), &wg).map_err(|e| e.to_string())?;
                    roundtrip(&st, |s| s.cartesian_positions().collect())?;
                    svg_matches(&st.as_svg().to_string(), &st.cartesian_positions().collect::<Vec<_>>(), &serde_json::to_value(&st.cell).map_err(|e| e.to_string())?)?;
                    // a user-built group may put the initial site on one of its mirror lines (copies
                    // coincide, no score): such a state is written, read and drawn, not optimised
                    if st.score().is_none() {
                        return Ok(());
                    }
                    let mut b = BuildOptimiser::default();
                    b.seed(variant as u64).steps(40).kt_start(0.);
                    let opt = b.build().optimise_state(st);
                    let txt = serde_json::to_string(&opt).map_err(|e| e.to_string())?;
                    let st2: PackedState<LineShape> = serde_json::from_str(&txt).map_err(|e| e.to_string())?;
                    roundtrip(&st2, |s| s.cartesian_positions().collect())?;
                    svg_matches(&st2.as_svg().to_string(), &st2.cartesian_positions().collect::<Vec<_>>(), &serde_json::to_value(&st2.cell).map_err(|e| e.to_string())?)?;
                    if serde_json::to_string(&st2).map_err(|e| e.to_string())? != txt {
                        return Err("optimised state is not reproduced by its JSON".into());
                    }
                } else {
                    let st = PotentialState::from_group(LJShape2::from_trimer(0.637556, 120., 1.), &wg).map_err(|e| e.to_string())?;
                    roundtrip(&st, |s| s.cartesian_positions().collect())?;
                    svg_matches(&st.as_svg().to_string(), &st.cartesian_positions().collect::<Vec<_>>(), &serde_json::to_value(&st.cell).map_err(|e| e.to_string())?)?;
                }
                Ok(())
            }))
            .unwrap_or(Err("panic".into()));
            family_states += 1;
            if let Err(w) = r {
                failures.push(json!({"what": format!("JSON round trip ({:?} cell): {}", fam, w),
                    "state": {"group": name, "family": format!("{:?}", fam), "variant": variant}}));
            }
        }
    }
    let res = json!({"states_checked": checked, "family_states": family_states, "failures": failures.len(),
        "first_failures": failures.iter().take(10).collect::<Vec<_>>()});
    let mut fo = fs::File::create(out).expect("out");
    writeln!(fo, "{}", res).unwrap();
}
