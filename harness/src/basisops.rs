//! Direct use of the parameter handle (spec/Basis.tla): random sequences of set_value /
//! reset_value / sample / writes through the owning cell on real StandardBasis handles, recorded
//! for spec/BasisTrace.tla.

use std::collections::HashMap;
use std::fs;
use std::io::Write;

use packing::traits::Basis;
use packing::{SharedValue, StandardBasis};
use rand::prelude::*;
use serde_json::json;

use crate::optrace::fx;

pub fn basis_ops(out: &str, tokens_out: &str, thorough: bool, seed: u64) {
    let mut rng = crate::suites::seeded(seed, 606);
    let mut toks: HashMap<u64, usize> = HashMap::new();
    let mut tok_fx: Vec<i64> = vec![];
    let mut tok = |v: f64| -> usize {
        let b = v.to_bits();
        if let Some(t) = toks.get(&b) {
            return *t;
        }
        tok_fx.push(fx(v));
        let t = tok_fx.len();
        toks.insert(b, t);
        t
    };
    let mut lines = vec![json!({"op": "header"}).to_string()];
    let handles = if thorough { 400 } else { 60 };
    for _ in 0..handles {
        let (lo, hi) = *[(0., 1.), (-0.5, 0.5), (0.01, 7.3), (0.1, 1.), (0., 6.283185307179586)]
            .choose(&mut rng)
            .unwrap();
        let start = match rng.gen_range(0, 4) {
            0 => lo,
            1 => hi,
            _ => lo + (hi - lo) * rng.gen::<f64>(),
        };
        let cell = SharedValue::new(start);
        let mut basis = StandardBasis::new(&cell, lo, hi);
        lines.push(
            json!({"op": "new", "cur": tok(cell.get_value()), "lo": (lo * 1e6).floor() as i64, "hi": (hi * 1e6).ceil() as i64})
                .to_string(),
        );
        for _ in 0..200 {
            match rng.gen_range(0, 10) {
                0..=3 => {
                    let v = match rng.gen_range(0, 6) {
                        0 => lo,
                        1 => hi,
                        2 => lo - (hi - lo) * rng.gen::<f64>(),
                        3 => hi + (hi - lo) * rng.gen::<f64>(),
                        _ => lo + (hi - lo) * rng.gen::<f64>(),
                    };
                    basis.set_value(v);
                    lines.push(
                        json!({"op": "set", "arg": tok(v), "cur": tok(cell.get_value()), "get": tok(basis.get_value())})
                            .to_string(),
                    );
                }
                4..=6 => {
                    basis.reset_value();
                    lines.push(json!({"op": "reset", "cur": tok(cell.get_value()), "get": tok(basis.get_value())}).to_string());
                }
                7 => {
                    let v = lo + (hi - lo) * rng.gen::<f64>();
                    cell.set_value(v);
                    lines.push(json!({"op": "write", "cur": tok(cell.get_value())}).to_string());
                }
                _ => {
                    let step = *[1e-5, 0.01, 0.3, 1.0, 1.1, 1.5, 1.9, 2.5, 0.].choose(&mut rng).unwrap();
                    let res = basis.sample(&mut rng, step);
                    let bound = ((step * 0.5 * (hi - lo)) * 1e6).ceil() as i64 + 1;
                    lines.push(
                        json!({"op": "sample", "res": tok(res), "bound": bound, "cur": tok(cell.get_value())}).to_string(),
                    );
                }
            }
        }
    }
    let mut fo = fs::File::create(out).expect("out");
    for l in lines {
        writeln!(fo, "{}", l).unwrap();
    }
    let mut ft = fs::File::create(tokens_out).expect("tokens");
    writeln!(ft, "{}", json!({ "fx": tok_fx })).unwrap();
}
