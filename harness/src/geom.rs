//! Spec -> implementation replay for the geometry modules: TLC enumerates grid states of
//! spec/Crystal.tla (and the lattice / pair / table instances) and prints, per state, the exact
//! observables; this module feeds each printed state to the real code and compares.
//! The harness converts units (integers -> f64); every expected value comes from TLC.

use std::f64::consts::PI;
use std::fs;
use std::io::{BufRead, BufReader, Write};
use std::panic::{catch_unwind, AssertUnwindSafe};

use nalgebra::Matrix3;
use packing::traits::*;
use packing::wallpaper::WyckoffSite;
use packing::{
    Cell2, LJShape2, LineShape, MolecularShape2, PackedState, PotentialState, Transform2,
};
use serde_json::{json, Value};

use crate::suites::{group, GROUPS};

fn mat(t: &Transform2) -> Matrix3<f64> {
    (*t).into()
}

/// Dump the implementation's group tables with doubled translations as integers.
pub fn tables(out: &str) {
    let mut obj = serde_json::Map::new();
    // a process that has already worked with groups of its own under the same names (another
    // setting of p2mg, a one-operation table called p2gg, ...): the built-in tables are what they are
    // whatever was built before
    for (name, ops) in [
        ("p2mg", vec!["x,y", "-x,-y", "x,-y+1/2", "-x,y+1/2"]),
        ("p2gg", vec!["x,y"]),
        ("p1", vec!["x,y", "-x,-y"]),
        ("p1g1", vec!["x,y", "x+1/2,-y"]),
    ]
    .iter()
    {
        let user = packing::WallpaperGroup { name, family: packing::CrystalFamily::Monoclinic, wyckoff_str: ops.clone() };
        let _ = WyckoffSite::new(&user);
        let _ = PackedState::from_group(LineShape::polygon(4).unwrap(), &user).map(|s| s.score());
        let _ = PotentialState::from_group(LJShape2::circle(), &user).map(|s| s.score());
    }
    // every group the library offers by name (the seven, and any added later)
    let mut names: Vec<String> = GROUPS.iter().map(|s| s.to_string()).collect();
    for v in packing::wallpaper::WallpaperGroups::variants().iter() {
        if !names.iter().any(|n| n == v) {
            names.push(v.to_string());
        }
    }
    for g in names.iter() {
        let g = &g.as_str();
        let wg = match g.parse::<packing::wallpaper::WallpaperGroups>().ok().and_then(|x| packing::wallpaper::get_wallpaper_group(x).ok()) {
            Some(w) => w,
            None => continue,
        };
        let fam = format!("{:?}", wg.family);
        let site = WyckoffSite::new(&wg);
        let mut ops = vec![];
        let mut integral = true;
        if let Ok(site) = site {
            for t in site.symmetries.iter() {
                let m = mat(t);
                let raw = [
                    m[(0, 0)],
                    m[(0, 1)],
                    m[(1, 0)],
                    m[(1, 1)],
                    2. * m[(0, 2)],
                    2. * m[(1, 2)],
                ];
                let mut row = vec![];
                for v in raw.iter() {
                    if !v.is_finite() || (v - v.round()).abs() > 1e-12 {
                        integral = false;
                        row.push(0i64);
                    } else {
                        row.push(v.round() as i64);
                    }
                }
                ops.push(row);
            }
        } else {
            integral = false;
        }
        // the same table as a state carries it after being written to JSON and read back, and the
        // crystal family of the cells the library builds for the group (hard and LJ states)
        let int_ops = |site: &WyckoffSite| -> Vec<Vec<i64>> {
            site.symmetries
                .iter()
                .map(|t| {
                    let m = mat(t);
                    [m[(0, 0)], m[(0, 1)], m[(1, 0)], m[(1, 1)], 2. * m[(0, 2)], 2. * m[(1, 2)]]
                        .iter()
                        .map(|v| if v.is_finite() && (v - v.round()).abs() <= 1e-12 { v.round() as i64 } else { 99 })
                        .collect()
                })
                .collect()
        };
        let mut stored: Vec<Vec<i64>> = vec![];
        let mut families: Vec<String> = vec![];
        if let Ok(st) = PackedState::from_group(LineShape::polygon(4).unwrap(), &wg) {
            if let Ok(text) = serde_json::to_string(&st) {
                if let Ok(j) = serde_json::from_str::<Value>(&text) {
                    if let Ok(site) = serde_json::from_value::<WyckoffSite>(j["occupied_sites"][0]["wyckoff"].clone()) {
                        stored = int_ops(&site);
                    }
                    families.push(j["cell"]["family"].as_str().unwrap_or("?").to_string());
                }
            }
        }
        if let Ok(st) = PotentialState::from_group(LJShape2::circle(), &wg) {
            if let Ok(j) = serde_json::to_value(&st) {
                families.push(j["cell"]["family"].as_str().unwrap_or("?").to_string());
            }
        }
        obj.insert(
            g.to_string(),
            json!({"name": wg.name, "family": fam, "ops": ops, "integral": integral,
                   "strings": wg.wyckoff_str, "stored": stored, "stateFamilies": families}),
        );
    }
    fs::write(out, Value::Object(obj).to_string()).expect("write tables");
}

// ------------------------------------------------------------------------------------------

fn gi(v: &Value, k: &str) -> i64 {
    v[k].as_i64().unwrap_or(0)
}
fn gs<'a>(v: &'a Value, k: &str) -> &'a str {
    v[k].as_str().unwrap_or("")
}

fn norm_angle(c: i64, s: i64) -> f64 {
    let a = f64::atan2(s as f64, c as f64);
    if a < 0. {
        a + 2. * PI
    } else {
        a
    }
}

enum Built {
    Poly(PackedState<LineShape>),
    Mol(PackedState<MolecularShape2>),
}

fn place(j: &mut Value, e: &Value) {
    let u = gi(e, "U") as f64;
    let d = gi(e, "D") as f64;
    let (ax, bx, by) = (gi(e, "ax") as f64, gi(e, "bx") as f64, gi(e, "by") as f64);
    j["cell"]["length"] = json!(ax / u);
    j["cell"]["ratio"] = json!((bx * bx + by * by).sqrt() / ax);
    j["cell"]["angle"] = json!(f64::atan2(by, bx));
    let site = &mut j["occupied_sites"][0];
    site["x"] = json!(gi(e, "sx") as f64 / d);
    site["y"] = json!(gi(e, "sy") as f64 / d);
    site["angle"] = json!(norm_angle(gi(e, "c"), gi(e, "s")));
}

fn build(e: &Value) -> Option<Built> {
    let g = group(gs(e, "g"));
    let u = gi(e, "U") as f64;
    match gs(e, "shape") {
        "square" | "kite" | "kite2" | "quad" => {
            let radial = match gs(e, "shape") {
                "square" => vec![1., 1., 1., 1.],
                "kite" => vec![1., 0.5, 1., 0.5],
                "kite2" => vec![0.5, 1., 0.5, 1.],
                _ => vec![1., 0.5, 0.8, 0.3],
            };
            let st = PackedState::from_group(LineShape::from_radial(gs(e, "shape"), radial).ok()?, &g)
                .ok()?;
            let mut j = serde_json::to_value(&st).ok()?;
            place(&mut j, e);
            serde_json::from_value(j).ok().map(Built::Poly)
        }
        "circle" | "trimer" => {
            let sh = if gs(e, "shape") == "circle" {
                MolecularShape2::circle()
            } else {
                MolecularShape2::from_trimer(gi(e, "sr") as f64 / u, 180., gi(e, "sd") as f64 / u)
            };
            let st = PackedState::from_group(sh, &g).ok()?;
            let mut j = serde_json::to_value(&st).ok()?;
            place(&mut j, e);
            serde_json::from_value(j).ok().map(Built::Mol)
        }
        _ => None,
    }
}

/// The p1 description of the same crystal with one occupied site per copy (Crystal!AsSites):
/// the JSON of the one-site state of `shape` in p1, its site replicated once per placement.
fn build_multi(e: &Value) -> Option<Built> {
    let mut e1 = e.clone();
    e1["g"] = json!("p1");
    let one = build(&e1)?;
    let mut j = match &one {
        Built::Poly(s) => serde_json::to_value(s).ok()?,
        Built::Mol(s) => serde_json::to_value(s).ok()?,
    };
    let d = gi(e, "D") as f64;
    let proto = j["occupied_sites"][0].clone();
    let mut sites = vec![];
    for p in e["pl"].as_array()? {
        let v: Vec<i64> = p.as_array()?.iter().map(|x| x.as_i64().unwrap_or(0)).collect();
        let mut site = proto.clone();
        site["x"] = json!(v[0] as f64 / d);
        site["y"] = json!(v[1] as f64 / d);
        site["angle"] = json!(norm_angle(v[2], v[4]));
        sites.push(site);
    }
    j["occupied_sites"] = Value::Array(sites);
    match one {
        Built::Poly(_) => serde_json::from_value(j).ok().map(Built::Poly),
        Built::Mol(_) => serde_json::from_value(j).ok().map(Built::Mol),
    }
}

/// The same crystal description as an LJ state: placements must be the same (C04, C15 hold
/// for hard and Lennard-Jones states alike).
fn lj_placements(e: &Value) -> Option<(Vec<Matrix3<f64>>, Vec<Matrix3<f64>>)> {
    let g = group(gs(e, "g"));
    let st = PotentialState::from_group(LJShape2::circle(), &g).ok()?;
    let mut j = serde_json::to_value(&st).ok()?;
    place(&mut j, e);
    let st: PotentialState<LJShape2> = serde_json::from_value(j).ok()?;
    let rel = st.relative_positions().map(|t| mat(&t)).collect();
    let cart = st.cartesian_positions().map(|t| mat(&t)).collect();
    Some((rel, cart))
}

struct Obs {
    score: Option<f64>,
    rel: Vec<Matrix3<f64>>,
    cart: Vec<Matrix3<f64>>,
    shape_area: f64,
    cell_area: f64,
}

fn observe(b: &Built) -> Obs {
    match b {
        Built::Poly(s) => Obs {
            score: s.score(),
            rel: s.relative_positions().map(|t| mat(&t)).collect(),
            cart: s.cartesian_positions().map(|t| mat(&t)).collect(),
            shape_area: s.shape.area(),
            cell_area: s.cell.area(),
        },
        Built::Mol(s) => Obs {
            score: s.score(),
            rel: s.relative_positions().map(|t| mat(&t)).collect(),
            cart: s.cartesian_positions().map(|t| mat(&t)).collect(),
            shape_area: s.shape.area(),
            cell_area: s.cell.area(),
        },
    }
}

fn close(a: f64, b: f64, tol: f64) -> bool {
    (a - b).abs() <= tol * f64::max(1., f64::max(a.abs(), b.abs()))
}

/// multiset equality of placement lists (position + linear part) within tol
fn same_placements(real: &[Matrix3<f64>], expect: &[[f64; 6]], tol: f64) -> bool {
    if real.len() != expect.len() {
        return false;
    }
    let mut used = vec![false; real.len()];
    for e in expect {
        let mut found = false;
        for (i, m) in real.iter().enumerate() {
            if used[i] {
                continue;
            }
            let r = [m[(0, 2)], m[(1, 2)], m[(0, 0)], m[(0, 1)], m[(1, 0)], m[(1, 1)]];
            if r.iter().zip(e.iter()).all(|(a, b)| (a - b).abs() <= tol) {
                used[i] = true;
                found = true;
                break;
            }
        }
        if !found {
            return false;
        }
    }
    true
}

pub struct Tally {
    pub checked: usize,
    pub nontrivial: usize,
    pub failures: Vec<Value>,
    pub skipped: usize,
}

impl Tally {
    fn new() -> Tally {
        Tally {
            checked: 0,
            nontrivial: 0,
            failures: vec![],
            skipped: 0,
        }
    }
    fn fail(&mut self, e: &Value, what: &str, detail: Value) {
        if self.failures.len() < 50 {
            self.failures.push(json!({"what": what, "state": e, "observed": detail}));
        } else {
            self.failures.push(json!({"what": what}));
        }
    }
    fn to_json(&self) -> Value {
        json!({"checked": self.checked, "nontrivial": self.nontrivial, "skipped": self.skipped,
               "failures": self.failures.len(),
               "first_failures": self.failures.iter().take(10).collect::<Vec<_>>()})
    }
}

/// Replay emitted Crystal states on the real PackedState.
pub fn crystal(input: &str, out: &str) {
    std::panic::set_hook(Box::new(|_| {}));
    let f = BufReader::new(fs::File::open(input).expect("input"));
    let mut c01 = Tally::new();
    let mut c02 = Tally::new();
    let mut c04 = Tally::new();
    let mut c15 = Tally::new();
    let mut critical = [0usize; 4];
    let mut lines = 0usize;
    let mut oracle_checked = 0usize;
    let mut multi_lines = 0usize;
    let mut oracle_mismatch: Vec<Value> = vec![];
    for line in f.lines() {
        let line = line.unwrap();
        if line.trim().is_empty() {
            continue;
        }
        let e: Value = match serde_json::from_str(&line) {
            Ok(v) => v,
            Err(_) => continue,
        };
        lines += 1;
        let built = catch_unwind(AssertUnwindSafe(|| build(&e))).ok().flatten();
        let b = match built {
            Some(b) => b,
            None => {
                c01.skipped += 1;
                continue;
            }
        };
        let o = match catch_unwind(AssertUnwindSafe(|| observe(&b))) {
            Ok(o) => o,
            Err(_) => {
                c01.fail(&e, "panic while scoring", json!(null));
                continue;
            }
        };
        let verdict = gs(&e, "verdict");
        let minshell = gi(&e, "minshell");
        // calibration of the floating-point oracle used on histories against TLC's exact verdict
        if verdict != "na" {
            let j = match &b {
                Built::Poly(s) => serde_json::to_value(s).ok(),
                Built::Mol(s) => serde_json::to_value(s).ok(),
            };
            if let Some(j) = j {
                use crate::oracle::{lattice_verdict, Verdict};
                let ov = lattice_verdict(&j, gs(&e, "g")).map(|v| v.0);
                let agrees = match (ov, verdict) {
                    (Some(Verdict::Overlap(_)), "overlap") => true,
                    (Some(Verdict::Apart), "apart") => true,
                    (Some(Verdict::Touch), "touch") => true,
                    // a touch decided exactly may be a 1e-16 gap or penetration in floats: within band
                    (Some(Verdict::Touch), _) => false,
                    (Some(_), "touch") => false,
                    _ => false,
                };
                oracle_checked += 1;
                if !agrees {
                    oracle_mismatch.push(json!({"state": e, "oracle": format!("{:?}", ov)}));
                }
            }
        }
        for k in 1..4 {
            if minshell != 99 && minshell > k as i64 {
                critical[k] += 1;
            }
        }
        let (u, d, h) = (gi(&e, "U") as f64, gi(&e, "D") as f64, gi(&e, "h") as f64);
        let (ax, bx, by) = (gi(&e, "ax") as f64, gi(&e, "bx") as f64, gi(&e, "by") as f64);
        // ---- C01: a scored state has no overlap anywhere in the tiling
        if verdict != "na" {
            c01.checked += 1;
        }
        if verdict == "overlap" {
            c01.nontrivial += 1;
            if o.score.is_some() {
                c01.fail(&e, "scored although images overlap", json!({"score": o.score}));
            }
        }
        // ---- C02: the score of a valid state is copies * area / cell area
        if verdict != "na" {
            c02.checked += 1;
        }
        if verdict == "apart" {
            let unit = gs(&e, "unit");
            if unit == "lens" {
                c02.skipped += 1;
            } else {
                c02.nontrivial += 1;
                let k = if unit == "pi" { PI } else { 1. };
                let expect = k * gi(&e, "num") as f64 / gi(&e, "den") as f64;
                match o.score {
                    Some(s) if close(s, expect, 1e-12) && s > 0. && s <= 1. + 1e-12 => {}
                    other => c02.fail(
                        &e,
                        "score differs from copies*area/cell area",
                        json!({"score": other, "expected": expect, "shape_area": o.shape_area,
                               "cell_area": o.cell_area}),
                    ),
                }
                // the cell area on its own: |A x B|
                if !close(o.cell_area, ax * by / (u * u), 1e-12) {
                    c02.fail(&e, "cell area differs from |A x B|", json!({"cell_area": o.cell_area}));
                }
            }
        }
        // ---- C15 / C04: placements
        let pl = e["pl"].as_array().cloned().unwrap_or_default();
        let mut exp_rel = vec![];
        let mut exp_cart = vec![];
        for p in pl.iter() {
            let v: Vec<f64> = p
                .as_array()
                .unwrap()
                .iter()
                .map(|x| x.as_i64().unwrap() as f64)
                .collect();
            let (px, py) = (v[0] / d, v[1] / d);
            let l = [v[2] / h, v[3] / h, v[4] / h, v[5] / h];
            exp_rel.push([px, py, l[0], l[1], l[2], l[3]]);
            exp_cart.push([
                (v[0] * ax + v[1] * bx) / (d * u),
                (v[1] * by) / (d * u),
                l[0],
                l[1],
                l[2],
                l[3],
            ]);
        }
        c15.checked += 1;
        c15.nontrivial += 1;
        let in_cell = o.rel.iter().all(|m| {
            m[(0, 2)] >= -0.5 && m[(0, 2)] < 0.5 && m[(1, 2)] >= -0.5 && m[(1, 2)] < 0.5
        });
        if !same_placements(&o.rel, &exp_rel, 1e-12) || !in_cell {
            let obs: Vec<Vec<f64>> = o
                .rel
                .iter()
                .map(|m| vec![m[(0, 2)], m[(1, 2)], m[(0, 0)], m[(0, 1)], m[(1, 0)], m[(1, 1)]])
                .collect();
            c15.fail(&e, "relative placements differ from the group's copies", json!(obs));
        }
        // orientation + 2 pi and the Lennard-Jones state of the same description
        match lj_placements(&e) {
            Some((rel, cart)) => {
                if !same_placements(&rel, &exp_rel, 1e-12) {
                    c15.fail(&e, "LJ state: relative placements differ", json!(null));
                }
                if !same_placements(&cart, &exp_cart, 1e-12 * f64::max(1., ax / u)) {
                    c04.fail(&e, "LJ state: cartesian placements differ", json!(null));
                }
            }
            None => c15.skipped += 1,
        }
        c04.checked += 1;
        c04.nontrivial += 1;
        let scale = f64::max(1., ax / u);
        if !same_placements(&o.cart, &exp_cart, 1e-12 * scale) {
            let obs: Vec<Vec<f64>> = o
                .cart
                .iter()
                .map(|m| vec![m[(0, 2)], m[(1, 2)], m[(0, 0)], m[(0, 1)], m[(1, 0)], m[(1, 1)]])
                .collect();
            c04.fail(&e, "cartesian placements differ from the symmetric model crystal", json!(obs));
        }
        // ---- the same crystal described as a p1 state with one site per copy (Crystal!AsSites)
        if gi(&e, "multi") == 1 && pl.len() > 1 {
            multi_lines += 1;
            let mo = catch_unwind(AssertUnwindSafe(|| build_multi(&e).map(|b| observe(&b))));
            match mo {
                Err(_) => c01.fail(&e, "p1 multi-site description: panic", json!(null)),
                Ok(None) => c01.skipped += 1,
                Ok(Some(m)) => {
                    if verdict == "overlap" && m.score.is_some() {
                        c01.fail(&e, "p1 multi-site description: scored although images overlap",
                                 json!({"score": m.score}));
                    }
                    if verdict == "apart" && gs(&e, "unit") != "lens" {
                        let k = if gs(&e, "unit") == "pi" { PI } else { 1. };
                        let expect = k * gi(&e, "num") as f64 / gi(&e, "den") as f64;
                        match m.score {
                            Some(s) if close(s, expect, 1e-12) => {}
                            other => c02.fail(&e, "p1 multi-site description: score differs from copies*area/cell area",
                                              json!({"score": other, "expected": expect})),
                        }
                    }
                    // site k of the p1 description: at Frac(k), turned by RotLin(k)
                    let rot_rel: Vec<[f64; 6]> = exp_rel.iter().map(|r| [r[0], r[1], r[2], -r[4], r[4], r[2]]).collect();
                    let rot_cart: Vec<[f64; 6]> = exp_cart.iter().map(|r| [r[0], r[1], r[2], -r[4], r[4], r[2]]).collect();
                    if !same_placements(&m.rel, &rot_rel, 1e-12) {
                        c15.fail(&e, "p1 multi-site description: relative placements differ", json!(null));
                    }
                    if !same_placements(&m.cart, &rot_cart, 1e-12 * scale) {
                        c04.fail(&e, "p1 multi-site description: cartesian placements differ", json!(null));
                    }
                }
            }
        }
    }
    let res = json!({"lines": lines, "oracle_checked": oracle_checked, "multi_site_lines": multi_lines,
                     "oracle_mismatches": oracle_mismatch.len(),
                     "oracle_first_mismatches": oracle_mismatch.iter().take(5).collect::<Vec<_>>(),
                     "critical": {"k1": critical[1], "k2": critical[2], "k3": critical[3]},
                     "C01": c01.to_json(), "C02": c02.to_json(), "C04": c04.to_json(),
                     "C15": c15.to_json()});
    let mut fo = fs::File::create(out).expect("out");
    writeln!(fo, "{}", res).unwrap();
}

#[allow(dead_code)]
pub fn unused(_: Option<(Cell2, LJShape2, PotentialState<LJShape2>)>) {}

/// debugging aid: print which pairs of copies / images the real code reports as intersecting
pub fn debug_state(line: &str) {
    let e: Value = serde_json::from_str(line).expect("json");
    if let Some(Built::Poly(s)) = build(&e) {
        println!("score {:?}", s.score());
        let carts: Vec<Transform2> = s.cartesian_positions().collect();
        let rels: Vec<Transform2> = s.relative_positions().collect();
        for (i, t1) in carts.iter().enumerate() {
            let s1 = s.shape.transform(t1);
            for (j, t2) in carts.iter().enumerate() {
                if j > i && s1.intersects(&s.shape.transform(t2)) {
                    println!("in-cell {} {} intersect", i, j);
                    println!("{}\n{}", s1, s.shape.transform(t2));
                }
            }
            for (j, r) in rels.iter().enumerate() {
                for n in -2..=2i64 {
                    for m in -2..=2i64 {
                        if n == 0 && m == 0 {
                            continue;
                        }
                        let t2 = s.cell.to_cartesian_translate(*r, n, m);
                        if s1.intersects(&s.shape.transform(&t2)) {
                            println!("image {} vs {} ({},{}) intersect", i, j, n, m);
                            println!("{}\n{}", s1, s.shape.transform(&t2));
                        }
                    }
                }
            }
        }
    }
}

// ------------------------------------------------------------------------------------------
// C12: pairs
// ------------------------------------------------------------------------------------------

fn tf(l: &[f64], h: f64, tx: f64, ty: f64) -> Transform2 {
    Transform2::from(Matrix3::new(
        l[0] / h,
        l[1] / h,
        tx,
        l[2] / h,
        l[3] / h,
        ty,
        0.,
        0.,
        1.,
    ))
}

fn motions() -> Vec<Matrix3<f64>> {
    vec![
        Matrix3::identity(),
        // rotation by the 3-4-5 angle and a translation
        Matrix3::new(0.6, -0.8, 0.3, 0.8, 0.6, -1.7, 0., 0., 1.),
        // reflection in the x axis and a translation
        Matrix3::new(1., 0., -2.25, 0., -1., 0.5, 0., 0., 1.),
        // quarter turn
        Matrix3::new(0., -1., 0., 1., 0., 0., 0., 0., 1.),
        // reflection combined with the 5-12-13 rotation
        Matrix3::new(-5. / 13., 12. / 13., 1., 12. / 13., 5. / 13., 1., 0., 0., 1.),
    ]
}

fn farr(v: &Value, k: &str) -> Vec<f64> {
    v[k].as_array()
        .map(|a| a.iter().map(|x| x.as_i64().unwrap_or(0) as f64).collect())
        .unwrap_or_default()
}

fn pair_answers<S: Shape + Intersect>(shape: &S, t1: &Transform2, t2: &Transform2) -> Vec<bool> {
    let mut out = vec![];
    for q in motions() {
        let m1: Matrix3<f64> = q * mat(t1);
        let m2: Matrix3<f64> = q * mat(t2);
        let a = shape.transform(&Transform2::from(m1));
        let b = shape.transform(&Transform2::from(m2));
        out.push(a.intersects(&b));
        out.push(b.intersects(&a));
    }
    out
}

pub fn pairs(input: &str, out: &str) {
    std::panic::set_hook(Box::new(|_| {}));
    let f = BufReader::new(fs::File::open(input).expect("input"));
    let mut t = Tally::new();
    let mut touch = 0usize;
    let mut by_verdict = [0usize; 3];
    for line in f.lines() {
        let line = line.unwrap();
        let e: Value = match serde_json::from_str(&line) {
            Ok(v) => v,
            Err(_) => continue,
        };
        let u = gi(&e, "U") as f64;
        let g = gi(&e, "G") as f64;
        let t1 = tf(&farr(&e, "l1"), gi(&e, "h1") as f64, 0., 0.);
        let t2 = tf(
            &farr(&e, "l2"),
            gi(&e, "h2") as f64,
            gi(&e, "dx") as f64 / g,
            gi(&e, "dy") as f64 / g,
        );
        let answers = catch_unwind(AssertUnwindSafe(|| match gs(&e, "shape") {
            "square" => pair_answers(&LineShape::from_radial("square", vec![1.; 4]).unwrap(), &t1, &t2),
            "kite" => pair_answers(
                &LineShape::from_radial("kite", vec![1., 0.5, 1., 0.5]).unwrap(),
                &t1,
                &t2,
            ),
            "quad" => pair_answers(
                &LineShape::from_radial("quad", vec![1., 0.5, 0.8, 0.3]).unwrap(),
                &t1,
                &t2,
            ),
            "kite2" => pair_answers(
                &LineShape::from_radial("kite2", vec![0.5, 1., 0.5, 1.]).unwrap(),
                &t1,
                &t2,
            ),
            "circle" => pair_answers(&MolecularShape2::circle(), &t1, &t2),
            _ => pair_answers(
                &MolecularShape2::from_trimer(gi(&e, "sr") as f64 / u, 180., gi(&e, "sd") as f64 / u),
                &t1,
                &t2,
            ),
        }));
        t.checked += 1;
        let answers = match answers {
            Ok(a) => a,
            Err(_) => {
                t.fail(&e, "panic in intersects", json!(null));
                continue;
            }
        };
        match gs(&e, "verdict") {
            "overlap" => {
                by_verdict[0] += 1;
                t.nontrivial += 1;
                if !answers.iter().all(|a| *a) {
                    t.fail(&e, "interiors overlap but some call answers no", json!(answers));
                }
            }
            "apart" => {
                by_verdict[2] += 1;
                t.nontrivial += 1;
                if answers.iter().any(|a| *a) {
                    t.fail(&e, "separated but some call answers yes", json!(answers));
                }
            }
            _ => {
                by_verdict[1] += 1;
                touch += 1;
            }
        }
    }
    let mut r = t.to_json();
    r["touch_not_asserted"] = json!(touch);
    r["overlap"] = json!(by_verdict[0]);
    r["apart"] = json!(by_verdict[2]);
    let mut fo = fs::File::create(out).expect("out");
    writeln!(fo, "{}", json!({ "C12": r })).unwrap();
}

// ------------------------------------------------------------------------------------------
// C17: parser
// ------------------------------------------------------------------------------------------
pub fn parser(input: &str, out: &str) {
    std::panic::set_hook(Box::new(|_| {}));
    let f = BufReader::new(fs::File::open(input).expect("input"));
    let mut t = Tally::new();
    let mut junk = 0usize;
    let mut junk_ok = 0usize;
    let mut junk_err = 0usize;
    for line in f.lines() {
        let line = line.unwrap();
        let e: Value = match serde_json::from_str(&line) {
            Ok(v) => v,
            Err(_) => continue,
        };
        let s = gs(&e, "s").to_string();
        let res = catch_unwind(AssertUnwindSafe(|| Transform2::from_operations(&s)));
        t.checked += 1;
        if e.get("junk").is_some() {
            junk += 1;
            match res {
                Err(_) => t.fail(&e, "the parser panicked", json!(null)),
                Ok(Ok(_)) => junk_ok += 1,
                Ok(Err(_)) => junk_err += 1,
            }
            continue;
        }
        t.nontrivial += 1;
        match res {
            Err(_) => t.fail(&e, "the parser panicked on a grammar string", json!(null)),
            Ok(Err(err)) => t.fail(&e, "grammar string rejected", json!(format!("{}", err))),
            Ok(Ok(tr)) => {
                let m = mat(&tr);
                let mut ok = true;
                for (row, key) in [(0usize, "r1"), (1usize, "r2")].iter() {
                    let r = farr(&e, key);
                    let expect = [r[0], r[1], r[2] / r[3]];
                    for c in 0..3 {
                        if !((m[(*row, c)] - expect[c]).abs() <= 1e-15) {
                            ok = false;
                        }
                    }
                }
                if !ok {
                    t.fail(
                        &e,
                        "parsed to a different affine map than the string denotes",
                        json!([[m[(0, 0)], m[(0, 1)], m[(0, 2)]], [m[(1, 0)], m[(1, 1)], m[(1, 2)]]]),
                    );
                }
            }
        }
    }
    let mut r = t.to_json();
    r["junk_strings"] = json!(junk);
    r["junk_parsed"] = json!(junk_ok);
    r["junk_rejected"] = json!(junk_err);
    let mut fo = fs::File::create(out).expect("out");
    writeln!(fo, "{}", json!({ "C17": r })).unwrap();
}

// ------------------------------------------------------------------------------------------
// C14: lattice
// ------------------------------------------------------------------------------------------
pub fn lattice(input: &str, out: &str) {
    use nalgebra::Point2;
    std::panic::set_hook(Box::new(|_| {}));
    let f = BufReader::new(fs::File::open(input).expect("input"));
    let mut t = Tally::new();
    let mut images_checked = 0usize;
    for line in f.lines() {
        let line = line.unwrap();
        let e: Value = match serde_json::from_str(&line) {
            Ok(v) => v,
            Err(_) => continue,
        };
        let (u, d) = (gi(&e, "U") as f64, gi(&e, "D") as f64);
        let (ax, bx, by) = (gi(&e, "ax") as f64, gi(&e, "bx") as f64, gi(&e, "by") as f64);
        let cell: Cell2 = match serde_json::from_value(json!({
            "length": ax / u, "ratio": (bx * bx + by * by).sqrt() / ax,
            "angle": f64::atan2(by, bx), "family": gs(&e, "fam")})) {
            Ok(c) => c,
            Err(_) => {
                t.skipped += 1;
                continue;
            }
        };
        t.checked += 1;
        t.nontrivial += 1;
        // the same cell in very small and very large units: area and Cartesian map scale with it
        for unit in [1e-9f64, 1e6].iter() {
            if let Ok(cs) = serde_json::from_value::<Cell2>(json!({
                "length": ax / u * unit, "ratio": (bx * bx + by * by).sqrt() / ax,
                "angle": f64::atan2(by, bx), "family": gs(&e, "fam")})) {
                let want = gi(&e, "area") as f64 / (u * u) * unit * unit;
                let got = cs.area();
                if !((got - want).abs() <= 1e-12 * want.abs()) {
                    t.fail(&e, &format!("area of the cell in units of {:e} is {:e}, expected {:e}", unit, got, want), Value::Null);
                    break;
                }
                let (x, y) = (gi(&e, "fx") as f64 / d, gi(&e, "fy") as f64 / d);
                let p = cs.to_cartesian_point(Point2::new(x, y));
                let cart = farr(&e, "cart");
                let (ex, ey) = (cart[0] / (d * u) * unit, cart[1] / (d * u) * unit);
                let blen = (bx * bx + by * by).sqrt() / u * unit;
                let tl = 1e-12 * f64::max(*unit, 4. * ax / u * unit) + 4e-15 * blen * (4. + x.abs() + y.abs());
                if (p.x - ex).abs() > tl || (p.y - ey).abs() > tl {
                    t.fail(&e, &format!("to_cartesian_point in units of {:e} gives ({:e}, {:e}), expected ({:e}, {:e})", unit, p.x, p.y, ex, ey), Value::Null);
                    break;
                }
            }
        }
        let scale = d * u;
        // the cell angle reaches the code as an f64 (one ulp of pi/2 is 2e-16): a coordinate along B
        // carries that times |B|, and the extent of the images grows with the shell count
        let blen = (bx * bx + by * by).sqrt() / u;
        let tol = 1e-12 * f64::max(1., 4. * ax / u) + 4e-15 * blen * (4. + (gi(&e, "fx") as f64).abs() / d + (gi(&e, "fy") as f64).abs() / d);
        let (x, y) = (gi(&e, "fx") as f64 / d, gi(&e, "fy") as f64 / d);
        let cart = farr(&e, "cart");
        let (ex, ey) = (cart[0] / scale, cart[1] / scale);
        let phi = norm_angle(gi(&e, "c"), gi(&e, "s"));
        // a rotation, or a mirrored copy (reflection x -> -x applied after the rotation)
        let tr = if e["mir"].as_bool().unwrap_or(false) {
            let (c, s) = (phi.cos(), phi.sin());
            Transform2::from(Matrix3::new(-c, s, x, s, c, y, 0., 0., 1.))
        } else {
            Transform2::new(phi, (x, y))
        };
        let lin0 = mat(&tr);
        let mut bad: Vec<String> = vec![];
        let r = catch_unwind(AssertUnwindSafe(|| {
            let mut bad: Vec<String> = vec![];
            let (cx, cy) = cell.to_cartesian(x, y);
            if (cx - ex).abs() > tol || (cy - ey).abs() > tol {
                bad.push(format!("to_cartesian gives ({}, {}), expected ({}, {})", cx, cy, ex, ey));
            }
            let p = cell.to_cartesian_point(Point2::new(x, y));
            if (p.x - ex).abs() > tol || (p.y - ey).abs() > tol {
                bad.push("to_cartesian_point differs".to_string());
            }
            let iso = mat(&cell.to_cartesian_isometry(tr));
            if (iso[(0, 2)] - ex).abs() > tol
                || (iso[(1, 2)] - ey).abs() > tol
                || iso[(0, 0)] != lin0[(0, 0)]
                || iso[(0, 1)] != lin0[(0, 1)]
                || iso[(1, 0)] != lin0[(1, 0)]
                || iso[(1, 1)] != lin0[(1, 1)]
            {
                bad.push("to_cartesian_isometry moves to the wrong point or changes the orientation".to_string());
            }
            let area = gi(&e, "area") as f64 / (u * u);
            if (cell.area() - area).abs() > 1e-12 * area.max(1.) {
                bad.push(format!("area {} differs from |A x B| = {}", cell.area(), area));
            }
            // corners
            let corners = cell.get_corners();
            if let Some(cs) = e["corners"].as_array() {
                for (i, c) in cs.iter().enumerate() {
                    let c: Vec<f64> = c.as_array().unwrap().iter().map(|v| v.as_i64().unwrap() as f64).collect();
                    if i >= corners.len()
                        || (corners[i].x - c[0] / scale).abs() > tol
                        || (corners[i].y - c[1] / scale).abs() > tol
                    {
                        bad.push(format!("corner {} differs", i));
                    }
                }
            }
            // periodic images
            let k = gi(&e, "k");
            let zero = e["zero"].as_bool().unwrap_or(false);
            let imgs: Vec<Matrix3<f64>> = cell.periodic_images(tr, k, zero).map(|t| mat(&t)).collect();
            let exp: Vec<Vec<f64>> = e["images"]
                .as_array()
                .unwrap()
                .iter()
                .map(|v| v.as_array().unwrap().iter().map(|z| z.as_i64().unwrap() as f64).collect())
                .collect();
            if imgs.len() != exp.len() {
                bad.push(format!("{} images, expected {}", imgs.len(), exp.len()));
            } else {
                let mut used = vec![false; imgs.len()];
                for ev in exp.iter() {
                    let (px, py) = (ev[2] / scale, ev[3] / scale);
                    let mut found = false;
                    for (i, m) in imgs.iter().enumerate() {
                        if !used[i] && (m[(0, 2)] - px).abs() <= tol && (m[(1, 2)] - py).abs() <= tol {
                            used[i] = true;
                            found = true;
                            if m[(0, 0)] != lin0[(0, 0)] || m[(0, 1)] != lin0[(0, 1)] || m[(1, 0)] != lin0[(1, 0)] || m[(1, 1)] != lin0[(1, 1)] {
                                bad.push("an image changed the orientation".to_string());
                            }
                            // the single translate agrees too
                            let one = mat(&cell.to_cartesian_translate(tr, ev[0] as i64, ev[1] as i64));
                            if (one[(0, 2)] - px).abs() > tol || (one[(1, 2)] - py).abs() > tol {
                                bad.push("to_cartesian_translate differs from the image".to_string());
                            }
                            break;
                        }
                    }
                    if !found {
                        bad.push(format!("image ({}, {}) missing", ev[0], ev[1]));
                        break;
                    }
                }
            }
            // the nearest-first enumeration: the same translates, none twice, never the cell itself
            let (ka, kb) = (k, (k + 1) % 4);
            let within: Vec<Matrix3<f64>> = cell.periodic_images_within(tr, ka, kb).map(|t| mat(&t)).collect();
            if within.len() as i64 != (2 * ka + 1) * (2 * kb + 1) - 1 {
                bad.push(format!("periodic_images_within gives {} images for {} x {} shells", within.len(), ka, kb));
            } else {
                let mut used = vec![false; within.len()];
                'outer: for n in -ka..=ka {
                    for m in -kb..=kb {
                        if n == 0 && m == 0 {
                            continue;
                        }
                        let (px, py) = (ex + (n as f64 * ax + m as f64 * bx) / u, ey + m as f64 * by / u);
                        let mut found = false;
                        for (i, w) in within.iter().enumerate() {
                            if !used[i] && (w[(0, 2)] - px).abs() <= tol && (w[(1, 2)] - py).abs() <= tol
                                && w[(0, 0)] == lin0[(0, 0)] && w[(0, 1)] == lin0[(0, 1)]
                                && w[(1, 0)] == lin0[(1, 0)] && w[(1, 1)] == lin0[(1, 1)]
                            {
                                used[i] = true;
                                found = true;
                                break;
                            }
                        }
                        if !found {
                            bad.push(format!("periodic_images_within misses the image ({}, {}) or changes its orientation", n, m));
                            break 'outer;
                        }
                    }
                }
            }
            (bad, imgs.len())
        }));
        match r {
            Ok((b, n)) => {
                bad = b;
                images_checked += n;
            }
            Err(_) => bad.push("panic".to_string()),
        }
        if !bad.is_empty() {
            t.fail(&e, &bad[0], json!(bad));
        }
    }
    let mut r = t.to_json();
    r["images_checked"] = json!(images_checked);
    let mut fo = fs::File::create(out).expect("out");
    writeln!(fo, "{}", json!({ "C14": r })).unwrap();
}

// ------------------------------------------------------------------------------------------
// C12 off the grids: recorded pairs for spec/PairsJudge.tla
// ------------------------------------------------------------------------------------------
fn rounded_items<S: Shape + serde::Serialize>(s: &S) -> Value {
    let j = serde_json::to_value(s).unwrap_or(Value::Null);
    let mut out = vec![];
    if let Some(items) = j["items"].as_array() {
        for it in items {
            if let Some(st) = it.get("start") {
                out.push(json!([(st[0].as_f64().filter(|v| v.is_finite() && v.abs() < 1e5).unwrap_or(0.) * 1000.).round() as i64, (st[1].as_f64().filter(|v| v.is_finite() && v.abs() < 1e5).unwrap_or(0.) * 1000.).round() as i64]));
            } else if let Some(p) = it.get("position") {
                out.push(json!([(p[0].as_f64().filter(|v| v.is_finite() && v.abs() < 1e5).unwrap_or(0.) * 1000.).round() as i64, (p[1].as_f64().filter(|v| v.is_finite() && v.abs() < 1e5).unwrap_or(0.) * 1000.).round() as i64,
                                (it["radius"].as_f64().filter(|v| v.is_finite() && v.abs() < 1e5).unwrap_or(0.) * 1000.).round() as i64]));
            }
        }
    }
    json!(out)
}

/// a placed shape whose coordinates or radii are not finite numbers (they serialise to null)
fn has_nonfinite<S: Shape + serde::Serialize>(s: &S) -> bool {
    fn bad(v: &Value) -> bool {
        match v {
            Value::Null => true,
            Value::Number(n) => n.as_f64().map(|x| !x.is_finite()).unwrap_or(true),
            Value::Array(a) => a.iter().any(bad),
            Value::Object(o) => o.values().any(bad),
            _ => false,
        }
    }
    serde_json::to_value(s).map(|j| bad(&j["items"])).unwrap_or(true)
}

/// rotation by theta followed by: 0 nothing, 1 the mirror x -> -x, 2 the mirror y -> -y
fn rigid(theta: f64, mirror: u8, tx: f64, ty: f64) -> Matrix3<f64> {
    let (c, s) = (theta.cos(), theta.sin());
    match mirror {
        1 => Matrix3::new(-c, s, tx, s, c, ty, 0., 0., 1.),
        2 => Matrix3::new(c, -s, tx, -s, -c, ty, 0., 0., 1.),
        _ => Matrix3::new(c, -s, tx, s, c, ty, 0., 0., 1.),
    }
}

/// orientations the optimiser's bounds make reachable exactly, and generic ones
fn pick_angle(rng: &mut rand_pcg::Pcg64Mcg) -> f64 {
    use rand::Rng;
    match rng.gen_range(0, 6) {
        0 => 0.,
        1 => 2. * PI,
        _ => rng.gen::<f64>() * 2. * PI,
    }
}

fn record_pairs<S: Shape + Intersect + serde::Serialize>(
    name: &str,
    kind: &str,
    shape: &S,
    rng: &mut rand_pcg::Pcg64Mcg,
    count: usize,
    out: &mut Vec<String>,
) {
    use rand::Rng;
    let r = shape.enclosing_radius();
    for _ in 0..count {
        let t1 = rigid(pick_angle(rng), rng.gen_range(0, 3), 0., 0.);
        let dir = rng.gen::<f64>() * 2. * PI;
        let th2 = pick_angle(rng);
        let m2: u8 = rng.gen_range(0, 3);
        let at = |d: f64| rigid(th2, m2, d * dir.cos(), d * dir.sin());
        // where the implementation's answer flips along this direction
        let hit = |d: f64| {
            shape
                .transform(&Transform2::from(t1))
                .intersects(&shape.transform(&Transform2::from(at(d))))
        };
        let (mut lo, mut hi) = (0.05 * r, 2.3 * r);
        for _ in 0..40 {
            let mid = 0.5 * (lo + hi);
            if hit(mid) {
                lo = mid;
            } else {
                hi = mid;
            }
        }
        let contact = 0.5 * (lo + hi);
        let ds = [
            contact - 0.3 * r,
            contact - 0.05,
            contact - 0.012,
            contact + 0.012,
            contact + 0.05,
            contact + 0.4 * r,
            rng.gen::<f64>() * 2.3 * r,
        ];
        for d in ds.iter() {
            if *d <= 0. {
                continue;
            }
            let t2 = at(*d);
            let mut answers = vec![];
            let mut p = Value::Null;
            let mut q = Value::Null;
            let mut nonfinite = false;
            // common motions: the fixed ones, and small shifts along the line of centres and in a
            // random direction that leave the origin inside one of the bodies, off its centre (an
            // answer must not depend on where the pair lies relative to the origin)
            let mut ms = motions();
            let rdir = rng.gen::<f64>() * 2. * PI;
            for mag in [0.2 * r, 0.45 * r].iter() {
                for a in [dir + PI, dir, rdir].iter() {
                    ms.push(rigid(0., 0, mag * a.cos(), mag * a.sin()));
                }
            }
            for (i, mo) in ms.iter().enumerate() {
                let a = shape.transform(&Transform2::from(mo * t1));
                let b = shape.transform(&Transform2::from(mo * t2));
                if i == 0 {
                    p = rounded_items(&a);
                    q = rounded_items(&b);
                }
                nonfinite = nonfinite || has_nonfinite(&a) || has_nonfinite(&b);
                answers.push(a.intersects(&b));
                answers.push(b.intersects(&a));
            }
            out.push(json!({"shape": name, "kind": kind, "p": p, "q": q, "answers": answers, "d": d, "nonfinite": nonfinite}).to_string());
        }
    }
}

/// Two copies lined up along a common edge direction with a real gap, the second turned by a
/// multiple of the polygon's symmetry angle plus a tiny angle (edges parallel, or parallel up to
/// 1e-12 ... 1e-7 rad): the configurations in which a tolerance on parallelism or on the end
/// points of the edges matters.
fn record_aligned(name: &str, shape: &LineShape, rng: &mut rand_pcg::Pcg64Mcg, count: usize, out: &mut Vec<String>) {
    use rand::seq::SliceRandom;
    use rand::Rng;
    let n = shape.items.len();
    for _ in 0..count {
        let th1 = if rng.gen::<bool>() { 0. } else { rng.gen::<f64>() * 2. * PI };
        let t1 = rigid(th1, 0, 0., 0.);
        let a = shape.transform(&Transform2::from(t1));
        let i = rng.gen_range(0, n);
        let e = &a.items[i];
        let (ex, ey) = (e.end.x - e.start.x, e.end.y - e.start.y);
        let len = (ex * ex + ey * ey).sqrt();
        let (ux, uy) = (ex / len, ey / len);
        let delta = *[0., 2e-11, -2e-11, 1e-10, -1e-10, 1e-9, 3e-8, -1e-7, 1e-12, 5e-13].choose(rng).unwrap();
        let turn = (rng.gen_range(0, n) as f64) * 2. * PI / n as f64;
        let gap = *[0.25, 0.05, 0.6, 1.5].choose(rng).unwrap();
        // far enough along the edge direction that the projections onto it are `gap` apart
        let proj: Vec<f64> = a.items.iter().map(|l| l.start.x * ux + l.start.y * uy).collect();
        let width = proj.iter().cloned().fold(f64::MIN, f64::max) - proj.iter().cloned().fold(f64::MAX, f64::min);
        let d = width + gap;
        let t2 = rigid(th1 + turn + delta, 0, d * ux, d * uy);
        let mut answers = vec![];
        let mut p = Value::Null;
        let mut q = Value::Null;
        for (k, mo) in motions().iter().enumerate() {
            let x = shape.transform(&Transform2::from(mo * t1));
            let y = shape.transform(&Transform2::from(mo * t2));
            if k == 0 {
                p = rounded_items(&x);
                q = rounded_items(&y);
            }
            answers.push(x.intersects(&y));
            answers.push(y.intersects(&x));
        }
        out.push(json!({"shape": format!("{} aligned gap {} turn {:e}", name, gap, delta), "kind": "poly", "p": p, "q": q, "answers": answers, "d": d, "nonfinite": false}).to_string());
    }
}

pub fn pairs_obs(out: &str, thorough: bool, seed: u64) {
    std::panic::set_hook(Box::new(|_| {}));
    let mut rng = crate::suites::seeded(seed, 1212);
    let per = if thorough { 400 } else { 60 };
    let mut lines: Vec<String> = vec![json!({"ev": "header"}).to_string()];
    for n in [3usize, 4, 5, 6, 7, 8, 12].iter() {
        let sh = LineShape::polygon(*n).unwrap();
        record_pairs(&format!("polygon{}", n), "poly", &sh, &mut rng, per, &mut lines);
    }
    for n in [3usize, 4, 5, 6, 8].iter() {
        let sh = LineShape::polygon(*n).unwrap();
        record_aligned(&format!("polygon{}", n), &sh, &mut rng, per * 2, &mut lines);
    }
    record_aligned("kite", &LineShape::from_radial("kite", vec![1., 0.6, 1., 0.6]).unwrap(), &mut rng, per * 2, &mut lines);
    for rad in [vec![1., 0.6, 1., 0.6], vec![0.8, 1., 0.8, 1.], vec![1., 0.9, 0.8, 0.9, 1., 0.9], vec![1., 0.5, 0.8, 0.3], vec![1., 0.6, 0.6, 0.6]].iter() {
        let sh = LineShape::from_radial("radial", rad.clone()).unwrap();
        record_pairs(&format!("radial{:?}", rad), "poly", &sh, &mut rng, per, &mut lines);
    }
    record_pairs("circle", "discs", &MolecularShape2::circle(), &mut rng, per, &mut lines);
    for (r, a, d) in [(0.637556, 120., 1.), (0.5, 180., 1.), (0.7, 90., 1.2), (1., 60., 0.8), (0.3, 150., 2.), (1.4, 180., 1.), (1.3, 110., 1.5), (0.2, 120., 1.)].iter() {
        let sh = MolecularShape2::from_trimer(*r, *a, *d);
        record_pairs(&format!("trimer({},{},{})", r, a, d), "discs", &sh, &mut rng, per, &mut lines);
    }
    let mut fo = fs::File::create(out).expect("out");
    for l in lines {
        writeln!(fo, "{}", l).unwrap();
    }
}

/// Polygons with many sides (32 to 96), where the rounded grid of PairsJudge is too coarse for the
/// shallow overlaps that matter: a corner of one polygon pushed into the middle of an edge of
/// the other by a fraction of the sagitta L^2/(8R), and random placements around the contact
/// distance.  Judged by the exact separating-axis value of the two convex outlines computed in
/// f64 (the vertices are those of the real shapes); verdicts only beyond 1e-7.
pub fn pairs_many(out: &str, thorough: bool, seed: u64) {
    use rand::Rng;
    std::panic::set_hook(Box::new(|_| {}));
    let mut rng = crate::suites::seeded(seed, 3434);
    let mut checked = 0usize;
    let mut asserted = 0usize;
    let mut failures: Vec<Value> = vec![];
    let verts = |s: &LineShape| -> Vec<[f64; 2]> { s.items.iter().map(|l| [l.start.x, l.start.y]).collect() };
    let sizes: Vec<(usize, f64)> = if thorough {
        vec![(32, 1.), (32, 3.), (33, 1.), (40, 1.), (48, 2.), (64, 1.), (96, 1.), (31, 1.), (24, 1.)]
    } else {
        vec![(32, 1.), (33, 1.), (40, 2.), (64, 1.), (24, 1.)]
    };
    for (n, r) in sizes {
        let shape = match LineShape::from_radial("many", vec![r; n]) {
            Ok(s) => s,
            Err(_) => continue,
        };
        let half = PI / n as f64;
        let apothem = r * half.cos();
        let sagitta = r - apothem; // how far a corner can enter past the circumcircle of ... the edge
        let mut cases: Vec<(Matrix3<f64>, Matrix3<f64>, String)> = vec![];
        // corner of B into the middle of edge k of A, along the edge normal
        for k in [0usize, 1, n / 3, n / 2].iter() {
            let theta = (2 * k + 1) as f64 * half;
            for f in [-0.5, -0.05, 0.02, 0.1, 0.3, 0.6, 0.9, 1.5, 4.0].iter() {
                let depth = f * sagitta;
                let d = apothem + r - depth;
                // B turned so that one of its corners points back along the normal
                let phi = theta + PI;
                cases.push((rigid(0., 0, 0., 0.), rigid(phi, 0, d * theta.cos(), d * theta.sin()),
                            format!("corner into edge {} of a {}-gon of radius {}, depth {:.3e}", k, n, r, depth)));
            }
        }
        for _ in 0..(if thorough { 200 } else { 40 }) {
            let t1 = rigid(pick_angle(&mut rng), rng.gen_range(0, 3), 0., 0.);
            let dir = rng.gen::<f64>() * 2. * PI;
            let th2 = pick_angle(&mut rng);
            let m2: u8 = rng.gen_range(0, 3);
            // contact distance by bisection on the exact separation
            let pa: Vec<[f64; 2]> = verts(&shape.transform(&Transform2::from(t1)));
            let sep_at = |d: f64| {
                let pb = verts(&shape.transform(&Transform2::from(rigid(th2, m2, d * dir.cos(), d * dir.sin()))));
                crate::oracle::poly_sep(&pa, &pb)
            };
            let (mut lo, mut hi) = (0.2 * r, 2.5 * r);
            for _ in 0..60 {
                let mid = 0.5 * (lo + hi);
                if sep_at(mid) < 0. {
                    lo = mid;
                } else {
                    hi = mid;
                }
            }
            let contact = 0.5 * (lo + hi);
            for off in [-0.3 * sagitta, -0.05 * sagitta, -1e-5, 1e-5, 0.05 * sagitta, 0.5 * sagitta].iter() {
                let d = contact + off;
                cases.push((t1, rigid(th2, m2, d * dir.cos(), d * dir.sin()), format!("{}-gon radius {} around contact, offset {:.3e}", n, r, off)));
            }
        }
        for (t1, t2, what) in cases {
            checked += 1;
            let sep = crate::oracle::poly_sep(&verts(&shape.transform(&Transform2::from(t1))), &verts(&shape.transform(&Transform2::from(t2))));
            if sep.abs() < 1e-7 {
                continue;
            }
            asserted += 1;
            let want = sep < 0.;
            let mut answers = vec![];
            for mo in motions().iter() {
                let a = shape.transform(&Transform2::from(mo * t1));
                let b = shape.transform(&Transform2::from(mo * t2));
                answers.push(a.intersects(&b));
                answers.push(b.intersects(&a));
            }
            if answers.iter().any(|x| *x != want) {
                failures.push(json!({"what": format!("many-sided polygons: real answers contradict the exact separation {:.3e} ({})", sep, what),
                    "state": {"sides": n, "radius": r, "t1": t1.iter().cloned().collect::<Vec<f64>>(), "t2": t2.iter().cloned().collect::<Vec<f64>>()},
                    "observed": answers}));
            }
        }
    }
    let res = json!({"checked": checked, "asserted": asserted, "failures": failures.len(), "first_failures": failures.iter().take(10).collect::<Vec<_>>()});
    let mut fo = fs::File::create(out).expect("out");
    writeln!(fo, "{}", res).unwrap();
}

// ------------------------------------------------------------------------------------------
// C15 on floating-point edge inputs (off every grid): the postcondition of Crystal!Placements
// evaluated in floating point with the reference operations
// ------------------------------------------------------------------------------------------
pub fn site_edges(out: &str) {
    use crate::oracle::ref_ops;
    std::panic::set_hook(Box::new(|_| {}));
    let ulp_below_half = f64::from_bits(0.5f64.to_bits() - 1);
    let ulp_above_half = f64::from_bits(0.5f64.to_bits() + 1);
    let coords = [
        0.5, -0.5, ulp_below_half, -ulp_below_half, ulp_above_half, -ulp_above_half, 0.0, -0.0, 1e-17, -1e-17,
        0.25, -0.25, 0.1, 1. / 3., 0.49999, -0.49999, 0.9999999999999999, 1.5, -1.5,
    ];
    let angles = [0., 1., 2. * PI, 2. * PI - 1e-16, PI, 0.5 * PI];
    let mut checked = 0usize;
    let mut failures: Vec<Value> = vec![];
    for g in GROUPS.iter() {
        let wg = group(g);
        let ops = ref_ops(g);
        let base = match PackedState::from_group(LineShape::polygon(4).unwrap(), &wg) {
            Ok(s) => serde_json::to_value(&s).unwrap(),
            Err(_) => continue,
        };
        for x in coords.iter() {
            for y in coords.iter() {
                for phi in angles.iter() {
                    let mut j = base.clone();
                    j["occupied_sites"][0]["x"] = json!(x);
                    j["occupied_sites"][0]["y"] = json!(y);
                    j["occupied_sites"][0]["angle"] = json!(phi);
                    let st: PackedState<LineShape> = match serde_json::from_value(j) {
                        Ok(s) => s,
                        Err(_) => continue,
                    };
                    let rel: Vec<Matrix3<f64>> = match catch_unwind(AssertUnwindSafe(|| st.relative_positions().map(|t| mat(&t)).collect())) {
                        Ok(r) => r,
                        Err(_) => {
                            failures.push(json!({"what": "panic", "state": {"g": g, "x": x, "y": y, "phi": phi}}));
                            continue;
                        }
                    };
                    checked += 1;
                    let mut bad: Option<String> = None;
                    if rel.len() != ops.len() {
                        bad = Some(format!("{} placements, the group has order {}", rel.len(), ops.len()));
                    }
                    let (c, s) = (phi.cos(), phi.sin());
                    let mut used = vec![false; rel.len()];
                    for op in ops.iter() {
                        let ex = op[0] * x + op[1] * y + op[4];
                        let ey = op[2] * x + op[3] * y + op[5];
                        let lin = [op[0] * c + op[1] * s, -op[0] * s + op[1] * c, op[2] * c + op[3] * s, -op[2] * s + op[3] * c];
                        let mut found = false;
                        for (i, m) in rel.iter().enumerate() {
                            if used[i] {
                                continue;
                            }
                            let (dx, dy) = (m[(0, 2)] - ex, m[(1, 2)] - ey);
                            let cong = (dx - dx.round()).abs() <= 1e-15 * (1. + ex.abs()) && (dy - dy.round()).abs() <= 1e-15 * (1. + ey.abs());
                            let lin_ok = (m[(0, 0)] - lin[0]).abs() <= 1e-15
                                && (m[(0, 1)] - lin[1]).abs() <= 1e-15
                                && (m[(1, 0)] - lin[2]).abs() <= 1e-15
                                && (m[(1, 1)] - lin[3]).abs() <= 1e-15;
                            if cong && lin_ok {
                                used[i] = true;
                                found = true;
                                break;
                            }
                        }
                        if !found && bad.is_none() {
                            bad = Some("a placement is not congruent to its operation applied to the site".into());
                        }
                    }
                    for m in rel.iter() {
                        if !(m[(0, 2)] >= -0.5 && m[(0, 2)] < 0.5 && m[(1, 2)] >= -0.5 && m[(1, 2)] < 0.5) && bad.is_none() {
                            bad = Some(format!("placement ({}, {}) outside the half-open cell", m[(0, 2)], m[(1, 2)]));
                        }
                    }
                    if let Some(w) = bad {
                        failures.push(json!({"what": w, "state": {"g": g, "x": format!("{:e}", x), "y": format!("{:e}", y), "phi": phi}}));
                    }
                }
            }
        }
    }
    let res = json!({"checked": checked, "failures": failures.len(), "first_failures": failures.iter().take(10).collect::<Vec<_>>()});
    let mut fo = fs::File::create(out).expect("out");
    writeln!(fo, "{}", res).unwrap();
}
