//! C03: the Lennard-Jones score is minus the lattice energy per molecule.
//!  (a) `probe`: TLC-enumerated grid states with the exact energy sum of a displacement-only pair
//!      energy of finite support (spec/Crystal.tla, OrderedSum); the real PotentialState with a
//!      harness-owned ProbeShape must report exactly -OrderedSum / (2 N);
//!      re-descriptions of the same crystal that TLC lists must score the same with real cut
//!      Lennard-Jones shapes.
//!  (b) `ljsum`: random states over the whole parameter range and optimisation histories: score()
//!      against a direct lattice sum (every pair of distinct images within range once).

use std::fmt;
use std::fs;
use std::io::{BufRead, BufReader, Write};
use std::ops::Mul;

use nalgebra::Point2;
use packing::traits::*;
use packing::{LJShape2, PotentialState, Transform2, LJ2};
use rand::prelude::*;
use serde::{Deserialize, Serialize};
use serde_json::{json, Value};
use svg::node::element;

use crate::oracle::ref_ops;
use crate::suites::{self, group, GROUPS};

// ---------------------------------------------------------------------------------- probe shape
#[derive(Clone, Debug, Serialize, Deserialize, PartialEq)]
pub struct Probe {
    pub position: Point2<f64>,
}
impl fmt::Display for Probe {
    fn fmt(&self, f: &mut fmt::Formatter) -> fmt::Result {
        write!(f, "Probe({}, {})", self.position.x, self.position.y)
    }
}
impl Mul<Transform2> for Probe {
    type Output = Probe;
    fn mul(self, rhs: Transform2) -> Probe {
        Probe {
            position: rhs * self.position,
        }
    }
}
impl ToSVG for Probe {
    type Value = element::Circle;
    fn as_svg(&self) -> Self::Value {
        element::Circle::new()
    }
}
#[derive(Clone, Debug, Serialize, Deserialize, PartialEq)]
pub struct ProbeShape {
    pub name: String,
    pub items: Vec<Probe>,
    /// W(d^2) = max(0, c - d^2)
    pub c: f64,
}
impl fmt::Display for ProbeShape {
    fn fmt(&self, f: &mut fmt::Formatter) -> fmt::Result {
        write!(f, "ProbeShape")
    }
}
impl ToSVG for ProbeShape {
    type Value = element::Group;
    fn as_svg(&self) -> Self::Value {
        element::Group::new()
    }
}
impl Shape for ProbeShape {
    type Component = Probe;
    fn score(&self, other: &Self) -> Option<f64> {
        Some(self.energy(other))
    }
    fn enclosing_radius(&self) -> f64 {
        1.
    }
    fn get_items(&self) -> Vec<Probe> {
        self.items.clone()
    }
    fn iter(&self) -> std::slice::Iter<'_, Probe> {
        self.items.iter()
    }
    fn transform(&self, transform: &Transform2) -> Self {
        ProbeShape {
            name: self.name.clone(),
            items: self.items.iter().map(|i| i.clone() * *transform).collect(),
            c: self.c,
        }
    }
}
impl Potential for ProbeShape {
    fn energy(&self, other: &Self) -> f64 {
        let d2 = (self.items[0].position - other.items[0].position).norm_squared();
        if d2 < self.c {
            self.c - d2
        } else {
            0.
        }
    }
    fn interaction_range(&self) -> Option<f64> {
        Some(self.c.sqrt())
    }
}

fn probe(c: f64) -> ProbeShape {
    ProbeShape {
        name: "probe".into(),
        items: vec![Probe {
            position: Point2::new(0., 0.),
        }],
        c,
    }
}

fn place(j: &mut Value, u: f64, d: f64, ax: f64, bx: f64, by: f64, sx: f64, sy: f64, phi: f64) {
    j["cell"]["length"] = json!(ax / u);
    j["cell"]["ratio"] = json!((bx * bx + by * by).sqrt() / ax);
    j["cell"]["angle"] = json!(f64::atan2(by, bx));
    j["occupied_sites"][0]["x"] = json!(sx / d);
    j["occupied_sites"][0]["y"] = json!(sy / d);
    j["occupied_sites"][0]["angle"] = json!(phi);
}

fn cut_circle(cutoff: f64) -> LJShape2 {
    LJShape2 {
        name: "cut circle".into(),
        items: vec![LJ2 {
            position: Point2::new(0., 0.),
            sigma: 1.,
            epsilon: 1.,
            cutoff: Some(cutoff),
        }],
    }
}

pub fn probe_replay(input: &str, out: &str) {
    std::panic::set_hook(Box::new(|_| {}));
    let f = BufReader::new(fs::File::open(input).expect("input"));
    let gi = |v: &Value, k: &str| v[k].as_i64().unwrap_or(0) as f64;
    let mut checked = 0usize;
    let mut nontrivial = 0usize;
    let mut redesc_checked = 0usize;
    let mut failures: Vec<Value> = vec![];
    for line in f.lines() {
        let line = line.unwrap();
        let e: Value = match serde_json::from_str(&line) {
            Ok(v) => v,
            Err(_) => continue,
        };
        let g = group(e["g"].as_str().unwrap_or("p1"));
        let (u, d) = (gi(&e, "U"), gi(&e, "D"));
        let (ax, bx, by) = (gi(&e, "ax"), gi(&e, "bx"), gi(&e, "by"));
        let (sx, sy, n) = (gi(&e, "sx"), gi(&e, "sy"), gi(&e, "n"));
        let scale2 = (d * u) * (d * u);
        checked += 1;
        for (ck, sk, ik) in [("cw1", "sum1", "in1"), ("cw2", "sum2", "in2")].iter() {
            let c = gi(&e, ck) / scale2;
            let expect = -gi(&e, sk) / scale2 / (2. * n);
            if gi(&e, ik) > 0. {
                nontrivial += 1;
            }
            let st = match PotentialState::from_group(probe(c), &g) {
                Ok(s) => s,
                Err(_) => continue,
            };
            let mut j = serde_json::to_value(&st).unwrap();
            place(&mut j, u, d, ax, bx, by, sx, sy, 0.);
            let st: PotentialState<ProbeShape> = match serde_json::from_value(j) {
                Ok(s) => s,
                Err(_) => continue,
            };
            let got = std::panic::catch_unwind(std::panic::AssertUnwindSafe(|| st.score())).unwrap_or(None);
            let ok = match got {
                Some(s) => (s - expect).abs() <= 1e-10 * f64::max(1., expect.abs()),
                None => false,
            };
            if !ok {
                failures.push(json!({"what": format!("score of the probe crystal differs from the energy per molecule with every pair counted once (well {})", ck),
                    "state": e, "observed": {"score": got, "expected": expect, "ordered_pairs_in_well": gi(&e, ik)}}));
                break;
            }
        }
        // re-descriptions with a real cut Lennard-Jones particle: equal scores
        let base = {
            let st = PotentialState::from_group(cut_circle(2.5), &g).unwrap();
            let mut j = serde_json::to_value(&st).unwrap();
            place(&mut j, u, d, ax, bx, by, sx, sy, 0.);
            serde_json::from_value::<PotentialState<LJShape2>>(j).ok().and_then(|s| s.score())
        };
        if let (Some(s0), Some(rs)) = (base, e["redesc"].as_array()) {
            for r in rs {
                let (x2, y2) = (r[0].as_i64().unwrap() as f64, r[1].as_i64().unwrap() as f64);
                let st = PotentialState::from_group(cut_circle(2.5), &g).unwrap();
                let mut j = serde_json::to_value(&st).unwrap();
                place(&mut j, u, d, ax, bx, by, x2, y2, 0.);
                let s2 = serde_json::from_value::<PotentialState<LJShape2>>(j).ok().and_then(|s| s.score());
                redesc_checked += 1;
                let ok = match s2 {
                    Some(s2) => (s2 - s0).abs() <= 1e-9 * f64::max(1., s0.abs()),
                    None => false,
                };
                if !ok {
                    failures.push(json!({"what": format!("two descriptions of one crystal score differently ({})", r[2].as_str().unwrap_or("")),
                        "state": e, "observed": {"score": s0, "redescribed": [x2, y2], "score2": s2}}));
                    break;
                }
            }
        }
    }
    let res = json!({"C03": {"checked": checked, "nontrivial": nontrivial, "redescriptions_checked": redesc_checked,
        "failures": failures.len(), "first_failures": failures.iter().take(10).collect::<Vec<_>>()}});
    let mut fo = fs::File::create(out).expect("out");
    writeln!(fo, "{}", res).unwrap();
}

// -------------------------------------------------------------------------- direct lattice sum
/// Energy per molecule of the crystal described by a state's JSON: every pair of distinct molecule
/// images with one member in the home cell once; shells from the range of the potential.
/// Returns (score, shells used, bound on the neglected tail for uncut potentials).
pub fn direct_score(j: &Value, gname: &str, shape: &LJShape2) -> Option<(f64, i64, f64)> {
    let cell = &j["cell"];
    let a = cell["length"].as_f64()?;
    let b = a * cell["ratio"].as_f64()?;
    let th = cell["angle"].as_f64()?;
    let (ax, bx, by) = (a, b * th.cos(), b * th.sin());
    let mut copies: Vec<LJShape2> = vec![];
    let mut fracs: Vec<[f64; 2]> = vec![];
    let mut lins: Vec<[f64; 4]> = vec![];
    for site in j["occupied_sites"].as_array()? {
        let (x, y, phi) = (site["x"].as_f64()?, site["y"].as_f64()?, site["angle"].as_f64()?);
        let (c, s) = (phi.cos(), phi.sin());
        for op in ref_ops(gname) {
            let fx = op[0] * x + op[1] * y + op[4];
            let fy = op[2] * x + op[3] * y + op[5];
            fracs.push([fx - (fx + 0.5).floor(), fy - (fy + 0.5).floor()]);
            lins.push([
                op[0] * c + op[1] * s,
                -op[0] * s + op[1] * c,
                op[2] * c + op[3] * s,
                -op[2] * s + op[3] * c,
            ]);
        }
    }
    let make = |f: &[f64; 2], l: &[f64; 4], n: i64, m: i64| -> LJShape2 {
        let (fx, fy) = (f[0] + n as f64, f[1] + m as f64);
        let (px, py) = (fx * ax + fy * bx, fy * by);
        LJShape2 {
            name: shape.name.clone(),
            items: shape
                .items
                .iter()
                .map(|p| LJ2 {
                    position: Point2::new(
                        px + l[0] * p.position.x + l[1] * p.position.y,
                        py + l[2] * p.position.x + l[3] * p.position.y,
                    ),
                    sigma: p.sigma,
                    epsilon: p.epsilon,
                    cutoff: p.cutoff,
                })
                .collect(),
        }
    };
    for (f, l) in fracs.iter().zip(lins.iter()) {
        copies.push(make(f, l, 0, 0));
    }
    let radius = shape
        .items
        .iter()
        .map(|p| (p.position.x.powi(2) + p.position.y.powi(2)).sqrt())
        .fold(0., f64::max);
    let all_cut = shape.items.iter().all(|p| p.cutoff.is_some());
    let maxcut = shape.items.iter().filter_map(|p| p.cutoff).fold(0., f64::max);
    let h = f64::min(ax * th.sin(), by);
    let (kn, km, tail) = if all_cut {
        let reach = maxcut + 2. * radius;
        (((reach / (ax * th.sin())).ceil() as i64) + 1, ((reach / by).ceil() as i64) + 1, 0.)
    } else {
        // uncut: sum far enough that the r^-6 tail is negligible, and report a bound for it
        let reach = f64::max(12., 6. * f64::max(a, b));
        let k1 = ((reach / (ax * th.sin())).ceil() as i64) + 1;
        let k2 = ((reach / by).ceil() as i64) + 1;
        let _ = h;
        (k1, k2, 0.)
    };
    if (2 * kn + 1) * (2 * km + 1) > 2_000_000 {
        return None;
    }
    let nmol = copies.len() as f64;
    let mut sum = 0.;
    for (i, ci) in copies.iter().enumerate() {
        for (k, (f, l)) in fracs.iter().zip(lins.iter()).enumerate() {
            for n in -kn..=kn {
                for m in -km..=km {
                    if i == k && n == 0 && m == 0 {
                        continue;
                    }
                    sum += 0.5 * ci.energy(&make(f, l, n, m));
                }
            }
        }
    }
    Some((-sum / nmol, i64::max(kn, km), tail))
}

pub fn ljsum(out: &str, thorough: bool, seed: u64) {
    use std::f64::consts::PI;
    std::panic::set_hook(Box::new(|_| {}));
    let mut rng = suites::seeded(seed, 303);
    let count = if thorough { 120000 } else { 14000 };
    let mut checked = 0usize;
    let mut small_height = 0usize;
    let mut undefined = 0usize;
    let mut failures: Vec<Value> = vec![];
    let mut samples: Vec<Value> = vec![];
    let shapes: Vec<(String, LJShape2)> = vec![
        ("trimer(0.637556,120,1)".into(), LJShape2::from_trimer(0.637556, 120., 1.)),
        ("trimer(0.5,180,1)".into(), LJShape2::from_trimer(0.5, 180., 1.)),
        ("cut circle 2.5".into(), cut_circle(2.5)),
        ("trimer(1,60,0.8)".into(), LJShape2::from_trimer(1., 60., 0.8)),
        ("trimer(0.5,180,2)".into(), LJShape2::from_trimer(0.5, 180., 2.)),
        ("trimer(0.3,150,2)".into(), LJShape2::from_trimer(0.3, 150., 2.)),
        ("trimer(0.2,120,1)".into(), LJShape2::from_trimer(0.2, 120., 1.)),
        ("trimer(1.4,100,1)".into(), LJShape2::from_trimer(1.4, 100., 1.)),
    ];
    let mut bound_states = 0usize;
    let mut two_site = 0usize;
    for k in 0..count {
        // now and then the operations of p2mg on an oblique cell (copies that are not equivalent)
        let gname = if k % 11 == 10 { "p2mgM" } else { GROUPS[k % GROUPS.len()] };
        let g = group(gname);
        let (sname, shape) = &shapes[(k / GROUPS.len()) % shapes.len()];
        let two = k % 5 == 4;
        let st = if two {
            // two occupied general sites (library API: initialise with several Wyckoff sites)
            match packing::wallpaper::WyckoffSite::new(&g) {
                Ok(site) => PotentialState::initialise(shape.clone(), packing::wallpaper::Wallpaper::new(&g), &[site.clone(), site]),
                Err(_) => continue,
            }
        } else {
            match PotentialState::from_group(shape.clone(), &g) {
                Ok(s) => s,
                Err(_) => continue,
            }
        };
        let mut j = serde_json::to_value(&st).unwrap();
        let fam = crate::states::family_of(gname);
        // cells over the whole declared range, small heights included
        let length = *[1.2, 2., 3., 4.5, 6., 9.].choose(&mut rng).unwrap() * (0.8 + 0.4 * rng.gen::<f64>());
        j["cell"]["length"] = json!(length);
        j["cell"]["ratio"] = json!(0.1 + 0.9 * rng.gen::<f64>().powi(2));
        if fam == "Monoclinic" {
            j["cell"]["angle"] = json!(PI / 6. + (PI / 2. - PI / 6.) * rng.gen::<f64>());
        }
        let edge = |rng: &mut rand_pcg::Pcg64Mcg| match rng.gen_range(0, 6) {
            0 => 0.5,
            1 => -0.5,
            2 => 0.4999,
            _ => rng.gen::<f64>() - 0.5,
        };
        j["occupied_sites"][0]["x"] = json!(edge(&mut rng));
        j["occupied_sites"][0]["y"] = json!(edge(&mut rng));
        j["occupied_sites"][0]["angle"] = json!(2. * PI * rng.gen::<f64>());
        if two {
            j["occupied_sites"][1]["x"] = json!(edge(&mut rng));
            j["occupied_sites"][1]["y"] = json!(edge(&mut rng));
            j["occupied_sites"][1]["angle"] = json!(2. * PI * rng.gen::<f64>());
        }
        let real: PotentialState<LJShape2> = match serde_json::from_value(j.clone()) {
            Ok(s) => s,
            Err(_) => continue,
        };
        let got = std::panic::catch_unwind(std::panic::AssertUnwindSafe(|| real.score())).unwrap_or(None);
        let (expect, shells, _) = match direct_score(&j, gname, shape) {
            Some(x) => x,
            None => continue,
        };
        // heavily overlapping states have energies of 1e6 and more, on which a lost pair of the
        // order 0.01 is below the rounding noise of the sum: most of the budget goes to states of
        // moderate energy (bound crystals and mildly repulsive ones)
        if expect.is_finite() && expect.abs() > 1e3 && k % 8 != 0 {
            continue;
        }
        // particles that all but coincide (energies beyond 1e9: distances below 0.2 sigma): the
        // twelfth power of a distance that is itself a rounded difference of coordinates is not a
        // number two summations can be expected to agree on
        if expect.is_finite() && expect.abs() > 1e9 {
            continue;
        }
        checked += 1;
        if expect.is_finite() && expect.abs() <= 1e3 {
            bound_states += 1;
        }
        if two {
            two_site += 1;
        }
        if shells > 4 {
            small_height += 1;
        }
        if samples.len() < 3 {
            samples.push(json!({"group": gname, "shape": sname, "cell": j["cell"], "site": j["occupied_sites"][0]["x"],
                                "score": got, "direct_sum": expect, "shells": shells}));
        }
        match got {
            None => {
                undefined += 1;
                if expect.is_finite() {
                    failures.push(json!({"what": "no score although the lattice energy is finite", "state": {"group": gname, "shape": sname, "state_json": j}}));
                }
            }
            Some(s) => {
                if !expect.is_finite() {
                    continue;
                }
                if !((s - expect).abs() <= 1e-9 * f64::max(1., expect.abs())) {
                    failures.push(json!({"what": format!("score differs from the direct lattice sum over {} shells", shells),
                        "state": {"group": gname, "shape": sname, "state_json": j}, "observed": {"score": s, "direct_sum": expect}}));
                }
            }
        }
    }
    let res = json!({"states_checked": checked, "moderate_energy_states": bound_states, "two_site_states": two_site,
        "needing_more_than_4_shells": small_height, "undefined": undefined,
        "samples": samples, "failures": failures.len(), "first_failures": failures.iter().take(10).collect::<Vec<_>>()});
    let mut fo = fs::File::create(out).expect("out");
    writeln!(fo, "{}", res).unwrap();
}
