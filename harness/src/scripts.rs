//! Spec -> implementation replay for the optimiser (spec/OptScript.tla): every script of offers
//! TLC enumerates is run on a `Scripted` state at the regime's temperature; the decisions read
//! from the cells and the score of the returned state must be the ones TLC prescribes.

use std::fs;
use std::io::{BufRead, BufReader, Write};

use packing::traits::State;
use serde_json::{json, Value};

use crate::optrace::Req;
use crate::states::{next_down, next_up, Brain, Script, Scripted};

pub fn scripts(input: &str, out: &str, seed: u64) {
    std::panic::set_hook(Box::new(|_| {}));
    let f = BufReader::new(fs::File::open(input).expect("input"));
    let mut checked = 0usize;
    let mut steps_total = 0usize;
    let mut failures: Vec<Value> = vec![];
    for (k, line) in f.lines().enumerate() {
        let line = line.unwrap();
        let e: Value = match serde_json::from_str(&line) {
            Ok(v) => v,
            Err(_) => continue,
        };
        let script = e["script"].as_str().unwrap_or("").to_string();
        let zero = e["regime"].as_str() == Some("zero");
        let n = script.chars().count() as u64;
        let expect: Vec<bool> = e["decisions"].as_array().unwrap().iter().map(|b| b.as_bool().unwrap()).collect();
        let mut sc = Script::new(&script, 'E', 1);
        sc.block = 1;
        let base = sc.held_score;
        let state = Scripted::new(&[0.5], &[(0., 1.)], Brain::Script(sc));
        let keep = state.clone();
        let req = Req {
            steps: n,
            // one loop, or loops of two steps: the decisions do not depend on the loop structure
            inner: if k % 2 == 0 { n } else { 2 },
            kt_start: if zero { 0. } else { 1e-3 },
            kt_finish: None,
            kt_ratio: Some(0.),
            max_step: 0.01,
            convergence: None,
            seed: seed.wrapping_mul(7919).wrapping_add(k as u64),
        };
        let run = crate::optrace::run_scripted("script", &req, state);
        checked += 1;
        steps_total += n as usize;
        if run.panicked.is_some() {
            failures.push(json!({"what": "the optimiser panicked on a scripted run", "state": e}));
            continue;
        }
        let kept: Vec<bool> = match &*keep.inner.brain.lock().unwrap() {
            Brain::Script(s) => s.kept.iter().map(|c| *c > 0).collect(),
            _ => vec![],
        };
        // with inner = 2 and an odd script the last step is not run (steps - inner < evals <= steps)
        let ran = kept.len();
        let ok_len = ran == expect.len() || (req.inner == 2 && ran + 1 == expect.len());
        // expected final score of the held state: fold of the offers TLC says are accepted
        let mut h = base;
        for (o, acc) in script.chars().zip(expect.iter()).take(ran) {
            if *acc {
                h = match o {
                    'B' => h + 1.,
                    'b' => next_up(h),
                    'w' => next_down(h),
                    _ => h,
                };
            }
        }
        let got_final = keep.score();
        if !ok_len || kept.iter().zip(expect.iter()).any(|(a, b)| a != b) {
            failures.push(json!({"what": "the sequence of accept/reject decisions differs from the one the Metropolis rule prescribes for this script",
                "state": e, "observed": {"kept": kept, "inner": req.inner, "seed": req.seed}}));
        } else if got_final.map(f64::to_bits) != Some(h.to_bits()) {
            failures.push(json!({"what": "the returned state does not score what the last accepted offer scored",
                "state": e, "observed": {"final": got_final, "expected": h}}));
        }
    }
    let res = json!({"scripts": {"checked": checked, "nontrivial": checked, "steps": steps_total, "failures": failures.len(),
        "first_failures": failures.iter().take(10).collect::<Vec<_>>()}});
    let mut fo = fs::File::create(out).expect("out");
    writeln!(fo, "{}", res).unwrap();
}
