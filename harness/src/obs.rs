//! Observation layer: a thread-local raw log fed by (a) the cfg(packing_verif) hooks of the
//! optimiser through an observer callback and (b) wrappers around the state that see every
//! `score()` call.  Each raw record carries the *true* contents of the parameter cells at that
//! moment, read through a reader closure that looks at the cells themselves.

use std::cell::RefCell;

use packing::verif::{self, Event};

#[derive(Clone, Debug)]
pub enum Raw {
    /// hook event + true parameter vector when it was emitted
    Hook(Event, Vec<f64>),
    /// a `score()` call seen by the wrapper: vector at the call, value returned
    Score(Vec<f64>, Option<f64>),
    /// the score just recorded differs from the score of a fresh copy of the same state (the state
    /// written to JSON and read back): (score of the state object in use, score of the copy)
    Stale(Option<f64>, Option<f64>),
}

thread_local! {
    static LOG: RefCell<Vec<Raw>> = RefCell::new(Vec::new());
    static READER: RefCell<Option<Box<dyn Fn() -> Vec<f64>>>> = RefCell::new(None);
    static ON_EVENT: RefCell<Option<Box<dyn FnMut(&Event, &[f64])>>> = RefCell::new(None);
    static FRESH: RefCell<Option<Box<dyn Fn() -> Option<Option<f64>>>>> = RefCell::new(None);
}

/// Install (or remove) the closure that scores a fresh copy of the state under observation.
pub fn set_fresh(f: Option<Box<dyn Fn() -> Option<Option<f64>>>>) {
    FRESH.with(|x| *x.borrow_mut() = f);
}

pub fn read_vec() -> Vec<f64> {
    READER.with(|r| match r.borrow().as_ref() {
        Some(f) => f(),
        None => Vec::new(),
    })
}

pub fn push_score(vec: Vec<f64>, score: Option<f64>) {
    LOG.with(|l| l.borrow_mut().push(Raw::Score(vec, score)));
    let fresh = FRESH.with(|f| f.borrow().as_ref().and_then(|f| f()));
    if let Some(fs) = fresh {
        let same = match (score, fs) {
            (Some(a), Some(b)) => a.to_bits() == b.to_bits(),
            (None, None) => true,
            _ => false,
        };
        if !same {
            LOG.with(|l| l.borrow_mut().push(Raw::Stale(score, fs)));
        }
    }
}

/// Install reader + observer, clear the log.
pub fn begin(
    reader: Box<dyn Fn() -> Vec<f64>>,
    on_event: Option<Box<dyn FnMut(&Event, &[f64])>>,
) {
    LOG.with(|l| l.borrow_mut().clear());
    READER.with(|r| *r.borrow_mut() = Some(reader));
    ON_EVENT.with(|o| *o.borrow_mut() = on_event);
    verif::set_observer(Some(Box::new(|ev: &Event| {
        // the draw does not touch the cells; skip the (possibly costly) read
        let vec = match ev {
            Event::Draw { .. } => Vec::new(),
            _ => read_vec(),
        };
        ON_EVENT.with(|o| {
            if let Some(f) = o.borrow_mut().as_mut() {
                f(ev, &vec);
            }
        });
        LOG.with(|l| l.borrow_mut().push(Raw::Hook(ev.clone(), vec)));
    })));
}

/// Remove observer and reader, return the raw log.
pub fn end() -> Vec<Raw> {
    verif::set_observer(None);
    READER.with(|r| *r.borrow_mut() = None);
    ON_EVENT.with(|o| *o.borrow_mut() = None);
    LOG.with(|l| std::mem::take(&mut *l.borrow_mut()))
}
