//! Replay of spec/Builder.tla: every script TLC enumerates (a builder from `Default::default()` or
//! from command line options, setter calls, copies, builds) is run on the real `BuildOptimiser`;
//! what each `build()` produced is read from the optimiser's Start hook and compared with the
//! record the specification derived.

use std::fs;
use std::io::{BufRead, BufReader, Write};
use std::panic::{catch_unwind, AssertUnwindSafe};

use packing::verif::{self, Event};
use packing::BuildOptimiser;
use serde_json::{json, Value};
use structopt::StructOpt;

use crate::states::{Brain, Scripted};

fn num(name: &str) -> Option<f64> {
    Some(match name {
        "zero" | "fzero" | "r0" | "c0" => 0.,
        "warm" => 1e-3,
        "tinyk" => 1e-17,
        "hot" => 0.5,
        "d01" => 0.1,
        "d0001" => 1e-3,
        "cold" => 1e-4,
        "hotter" => 1.0,
        "rhalf" => 0.5,
        "rbig" => 1.5,
        "rneg" => -0.25,
        "tiny" => 2e-5,
        "unit" => 1.0,
        "d001" => 0.01,
        "csmall" => 1e-3,
        _ => return None,
    })
}

fn sval(v: &Value) -> &str {
    v.as_str().unwrap_or("none")
}

fn from_cli(rec: &Value) -> Result<BuildOptimiser, String> {
    // every option that has a value is given: nothing depends on the defaults of the options
    let mut args: Vec<String> = vec!["x".into()];
    args.push(format!("--steps={}", rec["steps"]));
    args.push(format!("--inner-steps={}", rec["inner"]));
    args.push(format!("--kt-start={}", num(sval(&rec["ktStart"])).unwrap()));
    if let Some(f) = num(sval(&rec["ktFinish"])) {
        args.push(format!("--kt-finish={}", f));
    }
    if let Some(r) = num(sval(&rec["ktRatio"])) {
        args.push(format!("--kt-ratio={}", r));
    }
    args.push(format!("--max-step-size={}", num(sval(&rec["maxStep"])).unwrap()));
    if let Some(c) = num(sval(&rec["conv"])) {
        args.push(format!("--convergence={}", c));
    }
    BuildOptimiser::from_iter_safe(args).map_err(|e| format!("{}", e))
}

/// a builder from Default::default() with every field then set through its setter
fn from_default(rec: &Value) -> BuildOptimiser {
    let mut b = BuildOptimiser::default();
    for f in ["steps", "inner", "ktStart", "ktFinish", "ktRatio", "maxStep", "seed", "conv"].iter() {
        set(&mut b, f, &rec[*f]);
    }
    b
}

fn set(b: &mut BuildOptimiser, f: &str, v: &Value) {
    match f {
        "steps" => {
            b.steps(v.as_u64().unwrap());
        }
        "inner" => {
            b.inner_steps(v.as_u64().unwrap());
        }
        "ktStart" => {
            b.kt_start(num(sval(v)).unwrap());
        }
        "ktFinish" => {
            b.kt_finish(num(sval(v)).unwrap());
        }
        "ktRatio" => {
            b.kt_ratio(num(sval(v)));
        }
        "maxStep" => {
            b.max_step_size(num(sval(v)).unwrap());
        }
        "seed" => {
            b.seed(if sval(v) == "s7" { 7 } else { 8 });
        }
        "conv" => {
            b.convergence(num(sval(v)));
        }
        _ => panic!("unknown field {}", f),
    }
}

/// What build() made of the builder: the Start event of a run on a flat one-parameter landscape.
fn built(b: &BuildOptimiser) -> Result<Event, String> {
    let state = Scripted::new(&[0.5], &[(0., 1.)], Brain::Landscape(Box::new(|_| Some(1.0))));
    verif::start_recording();
    let r = catch_unwind(AssertUnwindSafe(|| {
        let opt = b.build();
        let _ = opt.optimise_state(state);
    }));
    let evs = verif::take_recording();
    if r.is_err() {
        return Err("build() or the run panicked".into());
    }
    evs.into_iter()
        .find(|e| matches!(e, Event::Start { .. }))
        .ok_or_else(|| "no Start event".to_string())
}

fn compare(expect: &Value, ev: &Event) -> Vec<String> {
    let mut bad = vec![];
    if let Event::Start {
        kt_start,
        kt_ratio,
        max_step_size,
        steps,
        inner_steps,
        seed,
        convergence,
        ..
    } = ev
    {
        if Some(*steps) != expect["steps"].as_u64() {
            bad.push(format!("steps {} expected {}", steps, expect["steps"]));
        }
        if Some(*inner_steps) != expect["innerEff"].as_u64() {
            bad.push(format!("inner loop length {} expected {}", inner_steps, expect["innerEff"]));
        }
        let ks = num(sval(&expect["ktStart"])).unwrap();
        if kt_start.to_bits() != ks.to_bits() {
            bad.push(format!("kt_start {} expected {}", kt_start, ks));
        }
        let ms = num(sval(&expect["maxStep"])).unwrap();
        if max_step_size.to_bits() != ms.to_bits() {
            bad.push(format!("max_step_size {} expected {}", max_step_size, ms));
        }
        match sval(&expect["seed"]) {
            "s7" if *seed != 7 => bad.push(format!("seed {} expected 7", seed)),
            "s8" if *seed != 8 => bad.push(format!("seed {} expected 8", seed)),
            _ => {}
        }
        let conv = num(sval(&expect["conv"]));
        if convergence.map(|c| c.to_bits()) != conv.map(|c| c.to_bits()) {
            bad.push(format!("convergence {:?} expected {:?}", convergence, conv));
        }
        let cool = &expect["cool"];
        let f = *kt_ratio;
        match sval(&cool["kind"]) {
            // a zero temperature stays zero under any finite non-negative factor
            "zeroStays" => {
                if !(f.is_finite() && f >= 0. && f.is_sign_positive()) {
                    bad.push(format!("cooling factor {} would not keep a zero temperature at zero", f));
                }
            }
            "ratio" => {
                let r = num(sval(&cool["a"])).unwrap();
                let want = f64::max(0., 1. - r);
                if f.to_bits() != want.to_bits() {
                    bad.push(format!("cooling factor {} expected 1 - kt_ratio = {}", f, want));
                }
            }
            "finish" => {
                let fin = num(sval(&cool["a"])).unwrap();
                let loops = cool["loops"].as_u64().unwrap() as f64;
                let want = f64::powf(fin / ks, 1. / loops);
                if !((f - want).abs() <= 1e-12 * want.abs().max(1e-300)) {
                    bad.push(format!(
                        "cooling factor {} expected (kt_finish/kt_start)^(1/{}) = {}",
                        f, loops, want
                    ));
                }
            }
            // neither ratio nor finishing temperature: the property leaves the factor open
            _ => {
                if !(f.is_finite() && f >= 0. && f <= 1.) {
                    bad.push(format!("cooling factor {} is not a cooling factor", f));
                }
            }
        }
    }
    bad
}

pub fn builder_scripts(input: &str, out: &str) {
    std::panic::set_hook(Box::new(|_| {}));
    let f = BufReader::new(fs::File::open(input).expect("input"));
    let (mut scripts, mut builds, mut sets, mut copies) = (0usize, 0usize, 0usize, 0usize);
    let mut kinds = std::collections::BTreeMap::new();
    let mut failures: Vec<Value> = vec![];
    for line in f.lines() {
        let line = line.unwrap();
        let e: Value = match serde_json::from_str(&line) {
            Ok(v) => v,
            Err(_) => continue,
        };
        let ops = match e["ops"].as_array() {
            Some(o) => o,
            None => continue,
        };
        scripts += 1;
        let mut bs: Vec<BuildOptimiser> = vec![];
        for (k, op) in ops.iter().enumerate() {
            match sval(&op["op"]) {
                "new" => {
                    let b = if sval(&op["origin"]) == "cli" {
                        match from_cli(&op["rec"]) {
                            Ok(b) => b,
                            Err(msg) => {
                                failures.push(json!({"what": "legal options rejected", "script": e, "observed": msg}));
                                break;
                            }
                        }
                    } else {
                        from_default(&op["rec"])
                    };
                    bs = vec![b, b];
                }
                "set" => {
                    sets += 1;
                    let i = op["b"].as_u64().unwrap() as usize - 1;
                    set(&mut bs[i], sval(&op["f"]), &op["v"]);
                }
                "copy" => {
                    copies += 1;
                    let (i, j) = (op["from"].as_u64().unwrap() as usize - 1, op["to"].as_u64().unwrap() as usize - 1);
                    bs[j] = if k % 2 == 0 { bs[i] } else { bs[i].clone() };
                }
                "build" => {
                    builds += 1;
                    let i = op["b"].as_u64().unwrap() as usize - 1;
                    *kinds.entry(sval(&op["expect"]["cool"]["kind"]).to_string()).or_insert(0usize) += 1;
                    match built(&bs[i]) {
                        Ok(ev) => {
                            let bad = compare(&op["expect"], &ev);
                            if !bad.is_empty() {
                                failures.push(json!({"what": "build() differs from the configuration as last set",
                                    "script": e, "step": k + 1, "observed": bad}));
                            }
                        }
                        Err(msg) => failures.push(json!({"what": msg, "script": e, "step": k + 1})),
                    }
                }
                _ => {}
            }
            if failures.len() > 50 {
                break;
            }
        }
    }
    let res = json!({"scripts": scripts, "builds": builds, "sets": sets, "copies": copies, "schedule_kinds": kinds,
        "failures": failures.len(), "first_failures": failures.iter().take(10).collect::<Vec<_>>()});
    let mut fo = fs::File::create(out).expect("out");
    writeln!(fo, "{}", res).unwrap();
}
