//! C02, shape areas.  (a) trimer parameter cases enumerated and classified exactly by TLC
//! (spec/Trimer.tla): `area()` of the real MolecularShape2 against TLC's exact rational multiple
//! of pi where one exists, and against an independent union-of-discs oracle (Green's theorem
//! over the exposed boundary arcs) everywhere; the oracle is calibrated on TLC's exact cases.
//! (b) polygons: `area()` against the shoelace formula over the shape's own vertices.

use std::f64::consts::PI;
use std::fs;
use std::io::{BufRead, BufReader, Write};

use packing::traits::*;
use packing::{Cell2, LineShape, MolecularShape2, PackedState};
use serde_json::{json, Value};

/// Area of a union of discs: 1/2 * contour integral of (x dy - y dx) over the arcs of each
/// circle that are not inside another disc.
pub fn union_area(discs: &[[f64; 3]]) -> f64 {
    let n = discs.len();
    let mut total = 0.;
    for i in 0..n {
        let [cx, cy, r] = discs[i];
        if r <= 0. {
            continue;
        }
        // covered angular intervals of circle i
        let mut covered: Vec<(f64, f64)> = vec![];
        let mut swallowed = false;
        for j in 0..n {
            if i == j {
                continue;
            }
            let [ox, oy, or] = discs[j];
            let (dx, dy) = (ox - cx, oy - cy);
            let dist = (dx * dx + dy * dy).sqrt();
            if dist >= r + or {
                continue;
            }
            if dist + r <= or {
                // circle i inside disc j (equal coincident discs: keep the lower index)
                if !(dist == 0. && r == or && i < j) {
                    swallowed = true;
                    break;
                }
                continue;
            }
            if dist + or <= r {
                continue; // disc j inside disc i: covers nothing of the boundary of i
            }
            let mid = dy.atan2(dx);
            let cosang = (r * r + dist * dist - or * or) / (2. * r * dist);
            let half = cosang.max(-1.).min(1.).acos();
            covered.push((mid - half, mid + half));
        }
        if swallowed {
            continue;
        }
        // normalise to [0, 2pi) and merge
        let mut segs: Vec<(f64, f64)> = vec![];
        for (a, b) in covered {
            let mut a = a.rem_euclid(2. * PI);
            let mut b = a + (b - a.rem_euclid(2. * PI)).rem_euclid(2. * PI);
            if b - a >= 2. * PI {
                a = 0.;
                b = 2. * PI;
            }
            if b > 2. * PI {
                segs.push((a, 2. * PI));
                segs.push((0., b - 2. * PI));
            } else {
                segs.push((a, b));
            }
        }
        segs.sort_by(|x, y| x.partial_cmp(y).unwrap());
        let mut exposed: Vec<(f64, f64)> = vec![];
        let mut cur = 0.;
        for (a, b) in segs {
            if a > cur {
                exposed.push((cur, a));
            }
            if b > cur {
                cur = b;
            }
        }
        if cur < 2. * PI {
            exposed.push((cur, 2. * PI));
        }
        for (t1, t2) in exposed {
            total += 0.5
                * (r * r * (t2 - t1) + r * cx * (t2.sin() - t1.sin()) - r * cy * (t2.cos() - t1.cos()));
        }
    }
    total
}

fn discs_of(shape: &MolecularShape2) -> Vec<[f64; 3]> {
    shape
        .items
        .iter()
        .map(|a| [a.position.x, a.position.y, a.radius])
        .collect()
}

/// area common to all three discs (inclusion-exclusion with exact unions)
fn triple_area(d: &[[f64; 3]]) -> f64 {
    if d.len() != 3 {
        return 0.;
    }
    let a = |i: usize| PI * d[i][2] * d[i][2];
    let pair = |i: usize, j: usize| a(i) + a(j) - union_area(&[d[i], d[j]]);
    union_area(d) - a(0) - a(1) - a(2) + pair(0, 1) + pair(0, 2) + pair(1, 2)
}

fn shoelace(shape: &LineShape) -> f64 {
    let pts: Vec<(f64, f64)> = shape.items.iter().map(|l| (l.start.x, l.start.y)).collect();
    let n = pts.len();
    let mut s = 0.;
    for i in 0..n {
        let (x1, y1) = pts[i];
        let (x2, y2) = pts[(i + 1) % n];
        s += x1 * y2 - x2 * y1;
    }
    0.5 * s.abs()
}

pub fn areas(input: &str, out: &str) {
    std::panic::set_hook(Box::new(|_| {}));
    let f = BufReader::new(fs::File::open(input).expect("input"));
    let mut checked = 0usize;
    let mut exact_cases = 0usize;
    let mut lens_cases = 0usize;
    let mut triple_cases = 0usize;
    let mut oracle_bad = 0usize;
    let mut failures: Vec<Value> = vec![];
    for line in f.lines() {
        let line = line.unwrap();
        let e: Value = match serde_json::from_str(&line) {
            Ok(v) => v,
            Err(_) => continue,
        };
        let q = e["Q"].as_i64().unwrap() as f64;
        let (r, d) = (e["r"].as_i64().unwrap() as f64 / q, e["d"].as_i64().unwrap() as f64 / q);
        let (s, c) = (e["s"].as_i64().unwrap() as f64, e["c"].as_i64().unwrap() as f64);
        let angle_deg = 2. * s.atan2(c).to_degrees();
        let shape = MolecularShape2::from_trimer(r, angle_deg, d);
        let got = match std::panic::catch_unwind(|| shape.area()) {
            Ok(a) => a,
            Err(_) => std::f64::NAN,
        };
        let discs = discs_of(&shape);
        let oracle = union_area(&discs);
        checked += 1;
        let case = e["case"].as_str().unwrap_or("");
        if case != "lens" {
            exact_cases += 1;
            let exact = PI * e["num"].as_i64().unwrap() as f64 / e["den"].as_i64().unwrap() as f64;
            if (oracle - exact).abs() > 1e-7 * exact.max(1.) {
                oracle_bad += 1;
                eprintln!("oracle {} vs exact {} on {}", oracle, exact, e);
            }
            if !((got - exact).abs() <= 1e-7 * exact.max(1.)) {
                let tri = triple_area(&discs);
                if tri > 1e-9 {
                    triple_cases += 1;
                }
                failures.push(json!({"what": format!("trimer area differs from the exact union area (case {}{})", case,
                        if tri > 1e-9 { ", three discs share a region: triple overlap" } else { "" }),
                    "state": e, "observed": {"area": got, "exact": exact, "triple_region": tri}}));
            }
        } else {
            lens_cases += 1;
            let tri = triple_area(&discs);
            let triple = tri > 1e-9;
            if triple {
                triple_cases += 1;
            }
            if !((got - oracle).abs() <= 1e-7 * oracle.max(1.)) {
                failures.push(json!({"what": format!("trimer area differs from the union of its discs ({})",
                        if triple { "three discs share a region: triple overlap" } else { "pairwise lenses only" }),
                    "state": e, "observed": {"area": got, "union": oracle, "triple_region": tri}}));
            }
        }
    }
    // polygons: regular n-gons and radial polygons against the shoelace formula of their vertices
    let mut polys = 0usize;
    let mut radials: Vec<Vec<f64>> = (3..=12).map(|n| vec![1.; n]).collect();
    radials.push(vec![1., 0.5, 1., 0.5]);
    radials.push(vec![0.5, 1., 0.5, 1.]);
    radials.push(vec![1., 0.6, 1., 0.6]);
    radials.push(vec![0.8, 1., 0.8, 1.]);
    radials.push(vec![1., 0.9, 0.8, 0.9, 1., 0.9]);
    radials.push(vec![2., 1.5, 2., 1.5, 2., 1.5, 2., 1.5]);
    // points that lie exactly on the chord between their neighbours (redundant vertices), a
    // vertex at the centre, alternating long and short radii
    radials.push(vec![1., 0.5, 1., 1., 1., 1.]);
    radials.push(vec![1., 0., 1., 1.]);
    let c45 = (PI / 4.).cos();
    radials.push(vec![1., c45, 1., c45, 1., c45, 1., c45]);
    radials.push(vec![1., 0.5, 1., 0.5, 1., 0.5]);
    radials.push(vec![2., 1., 2., 2., 2., 1., 2., 2., 2., 2., 2., 2.]);
    radials.push(vec![0.2, 5., 0.2, 5.]);
    radials.push(vec![1., 2., 3., 4.]);
    for rad in radials {
        if let Ok(shape) = LineShape::from_radial("poly", rad.clone()) {
            polys += 1;
            // the outline that was asked for: point k at angle 2 pi k / n and distance rad[k]
            let n = rad.len();
            let req: Vec<(f64, f64)> = (0..n)
                .map(|k| {
                    let a = 2. * PI * k as f64 / n as f64;
                    (rad[k] * a.cos(), rad[k] * a.sin())
                })
                .collect();
            let mut asked = 0.;
            for i in 0..n {
                let (x1, y1) = req[i];
                let (x2, y2) = req[(i + 1) % n];
                asked += x1 * y2 - x2 * y1;
            }
            let asked = asked.abs() / 2.;
            let (got, exp) = (shape.area(), shoelace(&shape));
            if !((got - exp).abs() <= 1e-12 * exp.max(1.)) || !((got - asked).abs() <= 1e-12 * asked.max(1.)) {
                failures.push(json!({"what": "polygon area differs from the shoelace area of its vertices",
                    "state": {"radial": rad}, "observed": {"area": got, "shoelace_of_items": exp, "shoelace_of_requested_outline": asked}}));
            }
        }
    }
    // The score is a function of the state as it is now: a state whose public `shape` or `cell`
    // field is replaced after it has been scored reports the packing fraction of the new contents.
    let mut reuse = 0usize;
    for gname in ["p1", "p2", "p2gg", "p1m1"].iter() {
        let g = crate::suites::group(gname);
        let seq: Vec<LineShape> = vec![
            LineShape::polygon(6).unwrap(),
            LineShape::polygon(4).unwrap(),
            LineShape::polygon(3).unwrap(),
            LineShape::from_radial("kite", vec![1., 0.5, 1., 0.5]).unwrap(),
        ];
        if let Ok(mut st) = PackedState::from_group(seq[0].clone(), &g) {
            let copies = st.relative_positions().count() as f64;
            for (k, sh) in seq.iter().enumerate() {
                st.shape = sh.clone();
                if k == 2 {
                    // a larger cell of the same family
                    let mut j = serde_json::to_value(&st.cell).unwrap();
                    j["length"] = json!(j["length"].as_f64().unwrap() * 1.5);
                    st.cell = serde_json::from_value::<Cell2>(j).unwrap();
                }
                reuse += 1;
                let want = copies * sh.area() / st.cell.area();
                match st.score() {
                    Some(s) if (s - want).abs() <= 1e-12 * want => {}
                    other => failures.push(json!({"what": "a state whose shape or cell was replaced after scoring does not report the packing fraction of its present contents",
                        "state": {"group": gname, "step": k}, "observed": {"score": other, "expected": want}})),
                }
            }
        }
        let tseq: Vec<MolecularShape2> = [0.9, 0.637556, 0.5, 0.3]
            .iter()
            .map(|r| MolecularShape2::from_trimer(*r, 180., 2.))
            .collect();
        if let Ok(mut st) = PackedState::from_group(tseq[0].clone(), &g) {
            let copies = st.relative_positions().count() as f64;
            for (k, sh) in tseq.iter().enumerate() {
                st.shape = sh.clone();
                reuse += 1;
                let want = copies * sh.area() / st.cell.area();
                match st.score() {
                    Some(s) if (s - want).abs() <= 1e-12 * want => {}
                    other => failures.push(json!({"what": "a state whose shape or cell was replaced after scoring does not report the packing fraction of its present contents",
                        "state": {"group": gname, "trimer_radius_step": k}, "observed": {"score": other, "expected": want}})),
                }
            }
        }
    }
    // failures outside the recorded triple-overlap finding first, so the cap never hides them
    failures.sort_by_key(|f| f["what"].as_str().map(|w| w.contains("triple overlap")).unwrap_or(false));
    let res = json!({"checked": checked, "exact_cases": exact_cases, "lens_cases": lens_cases,
        "triple_overlap_cases": triple_cases, "oracle_disagrees_with_tlc": oracle_bad,
        "polygons": polys, "state_reuse_scores": reuse, "failures": failures.len(),
        "first_failures": failures.iter().take(60).collect::<Vec<_>>()});
    let mut fo = fs::File::create(out).expect("out");
    writeln!(fo, "{}", res).unwrap();
}
