//! pvh - conformance harness binding the TLA+ specifications in /verif/spec to the real code.
//!
//! Subcommands (all write into --out DIR):
//!   opt   record optimiser runs, project them to trace files for spec/OptimiserTrace.tla
//!
//! The harness only measures and converts units; every law that is checked lives in TLA+.

mod areas;
mod basisops;
mod builder;
mod freq;
mod geom;
mod hist;
mod ljcheck;
mod ljscore;
mod obs;
mod oracle;
mod optrace;
mod output;
mod pipeline;
mod scripts;
mod states;
mod suites;

use std::collections::HashMap;
use std::fs;
use std::io::Write;

use serde_json::json;

fn args_map() -> (String, HashMap<String, String>) {
    let mut a = std::env::args().skip(1);
    let cmd = a.next().unwrap_or_default();
    let mut m = HashMap::new();
    let rest: Vec<String> = a.collect();
    let mut i = 0;
    while i < rest.len() {
        if rest[i].starts_with("--") {
            let k = rest[i][2..].to_string();
            let v = if i + 1 < rest.len() && !rest[i + 1].starts_with("--") {
                i += 1;
                rest[i].clone()
            } else {
                "true".to_string()
            };
            m.insert(k, v);
        }
        i += 1;
    }
    (cmd, m)
}

fn write_trace(out: &str, name: &str, runs: &[optrace::Run]) -> serde_json::Value {
    let (lines, toks, st) = optrace::project(runs);
    let mut f = fs::File::create(format!("{}/{}.ndjson", out, name)).expect("trace file");
    for l in &lines {
        writeln!(f, "{}", l).unwrap();
    }
    let mut t = fs::File::create(format!("{}/{}.tokens.json", out, name)).expect("token file");
    writeln!(t, "{}", json!({ "fx": toks })).unwrap();
    let descs: Vec<&str> = runs.iter().take(3).map(|r| r.desc.as_str()).collect();
    json!({
        "file": format!("{}/{}.ndjson", out, name),
        "tokens": format!("{}/{}.tokens.json", out, name),
        "lines": lines.len(), "runs": st.runs, "accepts": st.accepts, "rejects": st.rejects,
        "undefined": st.undefined, "clamped": st.clamped, "panics": st.panics,
        "early_exits": st.early, "metro_yes": st.metro_yes, "metro_no": st.metro_no,
        "metro_unsure": st.metro_unsure, "sample_runs": descs,
    })
}

fn cmd_opt(m: &HashMap<String, String>) {
    let out = m.get("out").cloned().unwrap_or_else(|| ".".into());
    fs::create_dir_all(&out).unwrap();
    let seed: u64 = m.get("seed").and_then(|s| s.parse().ok()).unwrap_or(1);
    let thorough = m.get("tier").map(|t| t == "thorough").unwrap_or(false);
    let suites_wanted = m.get("suites").cloned().unwrap_or_else(|| "scripted,pairs,real,edited".into());
    let scale = if thorough { 12 } else { 1 };
    // silence the panic messages of the code under test: a panic is data
    std::panic::set_hook(Box::new(|_| {}));
    let mut files = vec![];
    let chunks = if thorough { 12 } else { 2 };
    for suite in suites_wanted.split(',') {
        for c in 0..chunks {
            let mut rng = suites::seeded(seed, (c as u64) * 101 + suite.len() as u64);
            let runs = match suite {
                "scripted" => suites::scripted_suite(&mut rng, 120 * scale / chunks.max(1) * 2, 400),
                "pairs" => suites::prefix_pairs(&mut rng, 16 * scale / chunks.max(1) * 2),
                "real" => suites::real_suite(&mut rng, 14 * scale / chunks.max(1) * 2, if thorough { 400 } else { 250 }),
                "edited" => suites::edited_suite(&mut rng, 7 * scale / chunks.max(1) * 2, 100, false),
                "saveload" => suites::saveload_suite(&mut rng, 14 * scale / chunks.max(1) * 2),
                "special" => suites::special_suite(&mut rng, 20 * scale / chunks.max(1) * 2),
                "tiny" => suites::tiny_suite(&mut rng, 10 * scale / chunks.max(1) * 2),
                "oor" => {
                    let mut r = suites::edited_suite(&mut rng, 7 * scale / chunks.max(1) * 2, 100, true);
                    r.extend(suites::oor_lj_suite(&mut rng, 14 * scale / chunks.max(1) * 2));
                    r
                }
                _ => vec![],
            };
            if runs.is_empty() {
                continue;
            }
            files.push(write_trace(&out, &format!("{}_{}", suite, c), &runs));
        }
    }
    let mut f = fs::File::create(format!("{}/index.json", out)).unwrap();
    writeln!(f, "{}", json!({ "files": files })).unwrap();
}

fn main() {
    let (cmd, m) = args_map();
    match cmd.as_str() {
        "opt" => cmd_opt(&m),
        "debug-state" => geom::debug_state(m.get("line").expect("--line")),
        "pairs" => geom::pairs(m.get("in").expect("--in"), m.get("out").expect("--out")),
        "c01-histories" => hist::c01_histories(
            m.get("out").expect("--out"),
            m.get("tier").map(|t| t == "thorough").unwrap_or(false),
            m.get("seed").and_then(|s| s.parse().ok()).unwrap_or(1),
        ),
        "areas" => areas::areas(m.get("in").expect("--in"), m.get("out").expect("--out")),
        "c04-histories" => hist::c04_histories(
            m.get("out").expect("--out"),
            m.get("tier").map(|t| t == "thorough").unwrap_or(false),
            m.get("seed").and_then(|s| s.parse().ok()).unwrap_or(1),
        ),
        "parser" => geom::parser(m.get("in").expect("--in"), m.get("out").expect("--out")),
        "lattice" => geom::lattice(m.get("in").expect("--in"), m.get("out").expect("--out")),
        "lj" => ljcheck::lj(m.get("in").expect("--in"), m.get("out").expect("--out")),
        "probe" => ljscore::probe_replay(m.get("in").expect("--in"), m.get("out").expect("--out")),
        "ljsum" => ljscore::ljsum(
            m.get("out").expect("--out"),
            m.get("tier").map(|t| t == "thorough").unwrap_or(false),
            m.get("seed").and_then(|s| s.parse().ok()).unwrap_or(1),
        ),
        "svg" => output::svg(m.get("in").expect("--in"), m.get("out").expect("--out")),
        "json-random" => output::json_random(
            m.get("out").expect("--out"),
            m.get("tier").map(|t| t == "thorough").unwrap_or(false),
            m.get("seed").and_then(|s| s.parse().ok()).unwrap_or(1),
        ),
        "cli-inspect" => pipeline::cli_inspect(&m),
        "pool-runs" => pipeline::pool_runs(
            m.get("out").expect("--out"),
            m.get("tier").map(|t| t == "thorough").unwrap_or(false),
            m.get("seed").and_then(|s| s.parse().ok()).unwrap_or(1),
        ),
        "pairs-obs" => geom::pairs_obs(
            m.get("out").expect("--out"),
            m.get("tier").map(|t| t == "thorough").unwrap_or(false),
            m.get("seed").and_then(|s| s.parse().ok()).unwrap_or(1),
        ),
        "pairs-many" => geom::pairs_many(
            m.get("out").expect("--out"),
            m.get("tier").map(|t| t == "thorough").unwrap_or(false),
            m.get("seed").and_then(|s| s.parse().ok()).unwrap_or(1),
        ),
        "frequency" => freq::frequency(
            m.get("out").expect("--out"),
            m.get("tier").map(|t| t == "thorough").unwrap_or(false),
            m.get("seed").and_then(|s| s.parse().ok()).unwrap_or(1),
        ),
        "scripts" => scripts::scripts(
            m.get("in").expect("--in"),
            m.get("out").expect("--out"),
            m.get("seed").and_then(|s| s.parse().ok()).unwrap_or(1),
        ),
        "builder-scripts" => builder::builder_scripts(m.get("in").expect("--in"), m.get("out").expect("--out")),
        "site-edges" => geom::site_edges(m.get("out").expect("--out")),
        "initial-states" => hist::initial_states(m.get("out").expect("--out")),
        "basis-ops" => basisops::basis_ops(
            m.get("out").expect("--out"),
            m.get("tokens").expect("--tokens"),
            m.get("tier").map(|t| t == "thorough").unwrap_or(false),
            m.get("seed").and_then(|s| s.parse().ok()).unwrap_or(1),
        ),
        "tables" => geom::tables(m.get("out").expect("--out")),
        "crystal" => geom::crystal(m.get("in").expect("--in"), m.get("out").expect("--out")),
        _ => {
            eprintln!("usage: pvh opt --out DIR [--tier quick|thorough] [--seed N] [--suites a,b]");
            std::process::exit(2);
        }
    }
}
