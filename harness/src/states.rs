//! States handed to the real optimiser: `Scripted` (harness-owned cells, scripted or landscape
//! scores) and `Recorder<S>` (a real PackedState / PotentialState seen through a wrapper).

use std::cmp::Ordering;
use std::fmt;
use std::sync::{Arc, Mutex};

use anyhow::Error;
use packing::traits::{State, ToSVG};
use packing::{SharedValue, StandardBasis};
use serde::{Serialize, Serializer};
use svg::Document;

use crate::obs;

// ------------------------------------------------------------------------------------------
// Scripted
// ------------------------------------------------------------------------------------------

/// How a Scripted state answers `score()`.
pub enum Brain {
    /// deterministic function of the parameter vector
    Landscape(Box<dyn Fn(&[f64]) -> Option<f64> + Send>),
    /// relative script: each proposal's score is chosen relative to the score of the vector that
    /// is truly held (tracked from the cells, not from what the optimiser believes)
    Script(Script),
}

pub struct Script {
    pub directives: Vec<char>,
    pub pos: usize,
    pub held_score: f64,
    pub held_vec: Vec<f64>,
    pub in_flight: bool,
    pub pending: Option<(Vec<f64>, Option<f64>)>,
    /// what to do when the directives run out
    pub tail: char,
    /// size of the controlled downhill move of directive 'D'
    pub down: f64,
    /// number of proposals that were kept, per block of `block` proposals (truth, from the cells)
    pub block: usize,
    pub kept: Vec<usize>,
    pub seen: usize,
}

pub fn next_down(x: f64) -> f64 {
    // x is positive and finite in all uses
    f64::from_bits(x.to_bits() - 1)
}
pub fn next_up(x: f64) -> f64 {
    f64::from_bits(x.to_bits() + 1)
}

impl Script {
    pub fn new(directives: &str, tail: char, n: usize) -> Script {
        // the scale of the scores decides what one ulp is worth: vary it with the script
        let base = [100., 1., 1e-3][directives.len() % 3];
        Script {
            directives: directives.chars().collect(),
            pos: 0,
            held_score: base,
            held_vec: vec![0.; n],
            in_flight: false,
            pending: None,
            tail,
            down: 0.1,
            block: 0,
            kept: vec![],
            seen: 0,
        }
    }
    fn directive(&mut self) -> char {
        let d = if self.pos < self.directives.len() {
            self.directives[self.pos]
        } else {
            self.tail
        };
        self.pos += 1;
        d
    }
    fn score(&mut self, vec: &[f64]) -> Option<f64> {
        if !self.in_flight {
            // initial scoring or final validity check: the score of the held vector
            return Some(self.held_score);
        }
        let h = self.held_score;
        let d = self.directive();
        if bits_eq(vec, &self.held_vec) {
            // a proposal clamped back onto the held vector: a score is a function of the state
            self.pending = Some((vec.to_vec(), Some(h)));
            return Some(h);
        }
        let s = match d {
            'B' => Some(h + 1.),
            'b' => Some(next_up(h)),
            'E' => Some(h),
            'w' => Some(next_down(h)),
            'v' => Some(h - 1e-10),
'W' => Some(h - 1.),
            'D' => Some(h - self.down),
            'U' => None,
            _ => Some(h),
        };
        self.pending = Some((vec.to_vec(), s));
        s
    }
    /// called at the decide event with the true cell contents
    fn settle(&mut self, truth: &[f64]) {
        if self.block > 0 {
            let b = self.seen / self.block;
            while self.kept.len() <= b {
                self.kept.push(0);
            }
            if let Some((pvec, _)) = &self.pending {
                if bits_eq(truth, pvec) && !bits_eq(truth, &self.held_vec) {
                    self.kept[b] += 1;
                }
            }
            self.seen += 1;
        }
        if let Some((pvec, pscore)) = self.pending.take() {
            if bits_eq(truth, &pvec) && !bits_eq(truth, &self.held_vec) {
                if let Some(s) = pscore {
                    self.held_score = s;
                }
                self.held_vec = pvec;
            } else if bits_eq(truth, &pvec) {
                // proposal identical to the held vector (clamped no-op): accepted or not, the
                // vector is the same; an accepted defined score becomes the held score only if
                // the optimiser kept it, which is indistinguishable - keep the old one unless
                // the proposal was better-or-equal (then a correct optimiser has accepted it)
                if let Some(s) = pscore {
                    if s >= self.held_score {
                        self.held_score = s;
                    }
                }
            } else if !bits_eq(truth, &self.held_vec) {
                // neither: the cells are corrupted; follow the truth so the run can go on
                self.held_vec = truth.to_vec();
            }
        }
        self.in_flight = false;
    }
}

pub fn bits_eq(a: &[f64], b: &[f64]) -> bool {
    a.len() == b.len() && a.iter().zip(b).all(|(x, y)| x.to_bits() == y.to_bits())
}

pub struct ScriptedInner {
    pub cells: Vec<SharedValue>,
    pub bounds: Vec<(f64, f64)>,
    pub brain: Mutex<Brain>,
}

#[derive(Clone)]
pub struct Scripted {
    pub inner: Arc<ScriptedInner>,
}

impl Scripted {
    pub fn new(values: &[f64], bounds: &[(f64, f64)], mut brain: Brain) -> Scripted {
        if let Brain::Script(s) = &mut brain {
            s.held_vec = values.to_vec();
        }
        Scripted {
            inner: Arc::new(ScriptedInner {
                cells: values.iter().map(|v| SharedValue::new(*v)).collect(),
                bounds: bounds.to_vec(),
                brain: Mutex::new(brain),
            }),
        }
    }
    pub fn vector(&self) -> Vec<f64> {
        self.inner.cells.iter().map(|c| c.get_value()).collect()
    }
    /// hook notifications the brain needs to track the truth
    pub fn on_event(&self, ev: &packing::verif::Event, truth: &[f64]) {
        use packing::verif::Event;
        if let Brain::Script(s) = &mut *self.inner.brain.lock().unwrap() {
            match ev {
                Event::Propose { .. } => s.in_flight = true,
                Event::Decide { .. } => s.settle(truth),
                _ => {}
            }
        }
    }
}

impl fmt::Debug for Scripted {
    fn fmt(&self, f: &mut fmt::Formatter) -> fmt::Result {
        write!(f, "Scripted {:?}", self.vector())
    }
}
impl Serialize for Scripted {
    fn serialize<S: Serializer>(&self, serializer: S) -> Result<S::Ok, S::Error> {
        self.vector().serialize(serializer)
    }
}
impl PartialEq for Scripted {
    fn eq(&self, other: &Self) -> bool {
        bits_eq(&self.vector(), &other.vector())
    }
}
impl Eq for Scripted {}
impl PartialOrd for Scripted {
    fn partial_cmp(&self, other: &Self) -> Option<Ordering> {
        Some(self.cmp(other))
    }
}
impl Ord for Scripted {
    fn cmp(&self, _other: &Self) -> Ordering {
        Ordering::Equal
    }
}
impl ToSVG for Scripted {
    type Value = Document;
    fn as_svg(&self) -> Document {
        Document::new()
    }
}
impl State for Scripted {
    fn score(&self) -> Option<f64> {
        let vec = self.vector();
        let s = match &mut *self.inner.brain.lock().unwrap() {
            Brain::Landscape(f) => f(&vec),
            Brain::Script(s) => s.score(&vec),
        };
        obs::push_score(vec, s);
        s
    }
    fn generate_basis(&self) -> Vec<StandardBasis> {
        self.inner
            .cells
            .iter()
            .zip(self.inner.bounds.iter())
            .map(|(c, (lo, hi))| StandardBasis::new(c, *lo, *hi))
            .collect()
    }
    fn total_shapes(&self) -> usize {
        1
    }
    fn as_positions(&self) -> Result<String, Error> {
        Ok(String::new())
    }
}

// ------------------------------------------------------------------------------------------
// Recorder
// ------------------------------------------------------------------------------------------

/// Crystal family each supported group must have (reference table, independent of the code
/// under test): oblique groups may shear, the others keep a right angle.
pub fn family_of(group: &str) -> &'static str {
    match group {
        "p1" | "p2" => "Monoclinic",
        "hex1" => "Hexagonal",
        "tet1" | "p4" => "Tetragonal",
        "p2r" | "p2mgM" => "Monoclinic",
        _ => "Orthorhombic",
    }
}

/// Parameter vector of a real state, read from its JSON form: free parameters first in the
/// order the handles are generated (length, [ratio], [angle], then x, y, orientation per site),
/// followed by the frozen cell parameters.
pub fn full_vector(json: &serde_json::Value, fam: &str) -> Vec<f64> {
    let cell = &json["cell"];
    let f = |v: &serde_json::Value| v.as_f64().unwrap_or(std::f64::NAN);
    let mut free = vec![f(&cell["length"])];
    let mut frozen = vec![];
    match fam {
        "Monoclinic" => {
            free.push(f(&cell["ratio"]));
            free.push(f(&cell["angle"]));
        }
        "Orthorhombic" => {
            free.push(f(&cell["ratio"]));
            frozen.push(f(&cell["angle"]));
        }
        _ => {
            frozen.push(f(&cell["ratio"]));
            frozen.push(f(&cell["angle"]));
        }
    }
    if let Some(sites) = json["occupied_sites"].as_array() {
        for s in sites {
            free.push(f(&s["x"]));
            free.push(f(&s["y"]));
            free.push(f(&s["angle"]));
        }
    }
    free.extend(frozen);
    free
}

/// (lo, hi) per coordinate of `full_vector`, as declared by property C08, from the vector the
/// stage starts from.
pub fn declared_bounds(json: &serde_json::Value, fam: &str) -> Vec<(f64, f64)> {
    use std::f64::consts::PI;
    let cell = &json["cell"];
    let f = |v: &serde_json::Value| v.as_f64().unwrap_or(std::f64::NAN);
    let length = f(&cell["length"]);
    let ratio = f(&cell["ratio"]);
    let angle = f(&cell["angle"]);
    let mut free = vec![(0.01, length)];
    let mut frozen = vec![];
    match fam {
        "Monoclinic" => {
            free.push((0.1, ratio));
            free.push((PI / 6., PI / 2.));
        }
        "Orthorhombic" => {
            free.push((0.1, ratio));
            frozen.push((angle, angle));
        }
        _ => {
            frozen.push((ratio, ratio));
            frozen.push((angle, angle));
        }
    }
    if let Some(sites) = json["occupied_sites"].as_array() {
        for _ in sites {
            free.push((-0.5, 0.5));
            free.push((-0.5, 0.5));
            free.push((0., 2. * PI));
        }
    }
    free.extend(frozen);
    free
}

pub struct Recorder<S: State> {
    pub inner: Arc<S>,
    pub family: &'static str,
}

impl<S: State> Clone for Recorder<S> {
    fn clone(&self) -> Self {
        // a clone of a recorder is a deep copy, like a clone of the state it wraps
        Recorder {
            inner: Arc::new((*self.inner).clone()),
            family: self.family,
        }
    }
}

impl<S: State> Recorder<S> {
    pub fn new(state: S, family: &'static str) -> Self {
        Recorder {
            inner: Arc::new(state),
            family,
        }
    }
    pub fn vector_of(state: &S, family: &str) -> Vec<f64> {
        match serde_json::to_value(state) {
            Ok(j) => full_vector(&j, family),
            Err(_) => vec![],
        }
    }
}

impl<S: State> fmt::Debug for Recorder<S> {
    fn fmt(&self, f: &mut fmt::Formatter) -> fmt::Result {
        self.inner.fmt(f)
    }
}
impl<S: State> Serialize for Recorder<S> {
    fn serialize<T: Serializer>(&self, serializer: T) -> Result<T::Ok, T::Error> {
        self.inner.serialize(serializer)
    }
}
impl<S: State> PartialEq for Recorder<S> {
    fn eq(&self, other: &Self) -> bool {
        self.inner.eq(&other.inner)
    }
}
impl<S: State> Eq for Recorder<S> {}
impl<S: State> PartialOrd for Recorder<S> {
    fn partial_cmp(&self, other: &Self) -> Option<Ordering> {
        self.inner.partial_cmp(&other.inner)
    }
}
impl<S: State> Ord for Recorder<S> {
    fn cmp(&self, other: &Self) -> Ordering {
        self.inner.cmp(&other.inner)
    }
}
impl<S: State> ToSVG for Recorder<S> {
    type Value = Document;
    fn as_svg(&self) -> Document {
        self.inner.as_svg()
    }
}
impl<S: State> State for Recorder<S> {
    fn score(&self) -> Option<f64> {
        let s = self.inner.score();
        obs::push_score(Self::vector_of(&self.inner, self.family), s);
        s
    }
    fn generate_basis(&self) -> Vec<StandardBasis> {
        self.inner.generate_basis()
    }
    fn total_shapes(&self) -> usize {
        self.inner.total_shapes()
    }
    fn as_positions(&self) -> Result<String, Error> {
        self.inner.as_positions()
    }
}
