//! C09 / C10 / C20-CLI: observations of the replica pipeline.
//!  `cli-inspect`  summarises one invocation of the real binary: per-replica hook traces (file
//!                 sink of the hooks), the written JSON / SVG, the logged score, the exit.
//!  `pool-runs`    runs the pipeline of src/main.rs (clone, three seeded stages, max) in rayon
//!                 pools of several sizes and as isolated sequential references, in-process.
//! Both print records that lib/pipe_checks.py turns into the event log judged by
//! spec/PipelineTrace.tla.

use std::collections::hash_map::DefaultHasher;
use std::collections::BTreeMap;
use std::fs;
use std::hash::{Hash, Hasher};
use std::io::Write;

use packing::traits::*;
use packing::verif::{self, Event};
use packing::{BuildOptimiser, LJShape2, LineShape, MolecularShape2, PackedState, PotentialState};
use rayon::prelude::*;
use serde::de::DeserializeOwned;
use serde::Serialize;
use serde_json::{json, Value};
use structopt::StructOpt;

use crate::suites::group;

fn hex(v: f64) -> String {
    format!("{:016x}", v.to_bits())
}

// ------------------------------------------------------------------------------- cli-inspect
fn parse_hex(v: &Value) -> f64 {
    f64::from_bits(u64::from_str_radix(v.as_str().unwrap_or("0"), 16).unwrap_or(0))
}

/// per replica (seed): the runs found in the hook trace file, in per-thread order
/// One optimiser run (Start .. Return) as seen on one thread.
struct StageRun {
    seed: u64,
    start_bits: u64,
    final_bits: u64,
    digest: u64,
    events: usize,
}

/// The replicas of an invocation, reconstructed from the hook file without assuming on which
/// thread, in which order or with which seeds the stages of a replica run: the events of every
/// thread are cut into optimiser runs; runs are chained by continuity (a stage starts from the
/// score its predecessor ended with, the same seed preferred); a replica is a maximal chain, named
/// after the seed of its first stage; its digest is the digest of its stages in chain order.
fn replicas_from_trace(path: &str) -> Vec<Value> {
    let text = fs::read_to_string(path).unwrap_or_default();
    let mut by_thread: BTreeMap<u64, Vec<(u64, Value)>> = BTreeMap::new();
    for line in text.lines() {
        if let Ok(v) = serde_json::from_str::<Value>(line) {
            let t = v["thread"].as_u64().unwrap_or(0);
            let s = v["seq"].as_u64().unwrap_or(0);
            by_thread.entry(t).or_default().push((s, v));
        }
    }
    let mut runs: Vec<StageRun> = vec![];
    for (_, mut evs) in by_thread {
        evs.sort_by_key(|e| e.0);
        let mut cur: Option<(StageRun, DefaultHasher)> = None;
        for (_, v) in evs {
            let ev = v["ev"].as_str().unwrap_or("");
            if ev == "start" {
                if let Some((mut r, h)) = cur.take() {
                    r.digest = h.finish();
                    runs.push(r);
                }
                let sb = parse_hex(&v["score"]).to_bits();
                cur = Some((
                    StageRun { seed: v["seed"].as_u64().unwrap_or(0), start_bits: sb, final_bits: sb, digest: 0, events: 0 },
                    DefaultHasher::new(),
                ));
            }
            if let Some((r, h)) = cur.as_mut() {
                // the digest covers every field except the thread label and sequence number
                let mut o = v.clone();
                o.as_object_mut().map(|m| {
                    m.remove("thread");
                    m.remove("seq");
                });
                o.to_string().hash(h);
                r.events += 1;
                if ev == "decide" {
                    r.final_bits = parse_hex(&v["score_current"]).to_bits();
                }
            }
            if ev == "return" {
                if let Some((mut r, h)) = cur.take() {
                    r.digest = h.finish();
                    runs.push(r);
                }
            }
        }
        if let Some((mut r, h)) = cur.take() {
            r.digest = h.finish();
            runs.push(r);
        }
    }
    // chain the runs: pred[b] = a when b continues a
    let n = runs.len();
    let mut pred: Vec<Option<usize>> = vec![None; n];
    let mut used: Vec<bool> = vec![false; n]; // used as a predecessor
    // runs are produced in a deterministic order only per thread: sort for a schedule-free result
    let mut order: Vec<usize> = (0..n).collect();
    order.sort_by_key(|&i| (runs[i].seed, runs[i].start_bits, runs[i].final_bits, runs[i].digest));
    for pass in 0..2 {
        for &b in &order {
            if pred[b].is_some() {
                continue;
            }
            let cand = order.iter().cloned().find(|&a| {
                a != b
                    && !used[a]
                    && runs[a].final_bits == runs[b].start_bits
                    && (pass == 1 || runs[a].seed == runs[b].seed)
                    // no cycles: a must not (transitively) continue b
                    && {
                        let mut x = Some(a);
                        let mut ok = true;
                        let mut guard = 0;
                        while let Some(i) = x {
                            if i == b {
                                ok = false;
                                break;
                            }
                            x = pred[i];
                            guard += 1;
                            if guard > n {
                                break;
                            }
                        }
                        ok
                    }
            });
            // every replica starts from the same input: a first stage that ends where it began
            // looks like a continuation of any other such stage; with equal seeds that is the
            // replica's own chain only if the candidate is not itself a first stage of this seed.
            if let Some(a) = cand {
                pred[b] = Some(a);
                used[a] = true;
            }
        }
    }
    let mut out: Vec<Value> = vec![];
    for t in 0..n {
        if used[t] {
            continue; // not the last stage of its chain
        }
        let mut chain = vec![t];
        let mut x = pred[t];
        while let Some(i) = x {
            chain.push(i);
            x = pred[i];
        }
        chain.reverse();
        let mut h = DefaultHasher::new();
        let mut events = 0;
        for &i in &chain {
            runs[i].digest.hash(&mut h);
            events += runs[i].events;
        }
        out.push(json!({"r": runs[chain[0]].seed, "stages": chain.len(), "score_bits": hex(f64::from_bits(runs[t].final_bits)),
                        "digest": format!("{:016x}", h.finish()), "events": events}));
    }
    out.sort_by_key(|v| v["r"].as_u64().unwrap_or(0));
    out
}

/// The score an invocation logged: the last informational line that mentions a score, its last
/// number; compared with the written score at the precision it was printed with.
fn logged_score(stderr: &str, written: Option<f64>) -> Option<f64> {
    let line = stderr
        .lines()
        .filter(|l| l.to_lowercase().contains("score") && (l.contains("INFO") || !l.contains("DEBUG") && !l.contains("TRACE")))
        .last()?;
    // the numbers of the line after the word "score" (a line may also name replicas, counts, ...)
    let lower = line.to_lowercase();
    let after = &line[lower.find("score").map(|i| i + 5).unwrap_or(0)..];
    let numbers = |text: &str| -> Vec<String> {
        text.split(|c: char| !(c.is_ascii_digit() || c == '.' || c == '-' || c == '+' || c == 'e' || c == 'E'))
            .map(|t| t.trim_end_matches('.').to_string())
            .filter(|t| t.chars().any(|c| c.is_ascii_digit()) && t.parse::<f64>().is_ok())
            .collect()
    };
    let toks = numbers(after);
    let toks = if toks.is_empty() { numbers(line) } else { toks };
    // a number that is the written score at the precision it is printed with
    if let Some(w) = written {
        for tok in &toks {
            if tok.parse::<f64>().ok().map(|v| v.to_bits()) == Some(w.to_bits()) {
                return Some(w);
            }
            if !tok.contains('e') && !tok.contains('E') {
                let decimals = tok.split('.').nth(1).map(|d| d.len()).unwrap_or(0);
                if decimals >= 3 && format!("{:.*}", decimals, w) == tok.trim_start_matches('+') {
                    return Some(w);
                }
            }
        }
    }
    toks.first().and_then(|t| t.parse().ok())
}

fn inspect_written<S>(json_path: &str) -> Option<Value>
where
    S: State + DeserializeOwned,
{
    let text = fs::read_to_string(json_path).ok()?;
    let st: S = serde_json::from_str(&text).ok()?;
    let v: Value = serde_json::from_str(&text).ok()?;
    let mut h = DefaultHasher::new();
    text.hash(&mut h);
    Some(json!({
        "score_bits": st.score().map(hex), "copies": st.total_shapes(),
        "name": v["wallpaper"]["name"], "family": v["wallpaper"]["family"], "cell_family": v["cell"]["family"],
        "shape": v["shape"]["name"], "items": v["shape"]["items"].as_array().map(|a| a.len()),
        "sites": v["occupied_sites"].as_array().map(|a| a.len()),
        "symmetries": v["occupied_sites"][0]["wyckoff"]["symmetries"].as_array().map(|a| a.len()),
        "json_digest": format!("{:016x}", h.finish()),
    }))
}

pub fn cli_inspect(m: &std::collections::HashMap<String, String>) {
    let get = |k: &str| m.get(k).cloned().unwrap_or_default();
    let reps = replicas_from_trace(&get("trace"));
    let written = match (get("shape").as_str(), get("potential").as_str()) {
        ("polygon", "Hard") => inspect_written::<PackedState<LineShape>>(&get("json")),
        (_, "Hard") => inspect_written::<PackedState<MolecularShape2>>(&get("json")),
        _ => inspect_written::<PotentialState<LJShape2>>(&get("json")),
    };
    let svg = fs::read_to_string(get("svg")).ok();
    let mut svg_digest = Value::Null;
    let mut uses = Value::Null;
    if let Some(s) = &svg {
        let mut h = DefaultHasher::new();
        s.hash(&mut h);
        svg_digest = json!(format!("{:016x}", h.finish()));
        // the molecule is drawn through <use> elements: those of the most frequent reference
        let mut by_ref: BTreeMap<String, usize> = BTreeMap::new();
        for part in s.split("<use").skip(1) {
            let tag = part.split('>').next().unwrap_or("");
            if let Some(k) = tag.find("href=\"") {
                let r = tag[k + 6..].split('"').next().unwrap_or("").to_string();
                *by_ref.entry(r).or_insert(0) += 1;
            }
        }
        uses = json!(by_ref.values().cloned().max().unwrap_or(0));
    }
    let stderr = fs::read_to_string(get("stderr")).unwrap_or_default();
    let written_score = written
        .as_ref()
        .and_then(|w| w["score_bits"].as_str().map(|h| parse_hex(&json!(h))));
    let logged = logged_score(&stderr, written_score);
    let res = json!({
        "replicas": reps, "written": written, "svg_digest": svg_digest, "svg_mol_uses": uses,
        "json_exists": fs::metadata(get("json")).is_ok(), "svg_exists": svg.is_some(),
        "logged_bits": logged.map(hex), "panicked": stderr.contains("panicked at"),
        "message": stderr.lines().any(|l| l.contains("Error") || l.contains("error")),
    });
    println!("{}", res);
}

// --------------------------------------------------------------------------------- pool-runs
fn builder(args: &[&str]) -> BuildOptimiser {
    let mut a = vec!["x"];
    a.extend_from_slice(args);
    BuildOptimiser::from_iter_safe(a).expect("args")
}

/// the replica chain of src/main.rs, with the hooks of this thread recorded
fn replica_state<S: State + Serialize>(opt: &BuildOptimiser, state: &S, index: u64, first_steps: u64) -> (impl State, String) {
    verif::start_recording();
    let s1 = opt
        .clone()
        .steps(first_steps)
        .kt_start(0.)
        .seed(index)
        .convergence(None)
        .build()
        .optimise_state(state.clone());
    let s2 = opt.clone().seed(index).build().optimise_state(s1);
    let s3 = opt.clone().kt_start(0.).seed(index).build().optimise_state(s2);
    let events = verif::take_recording();
    let mut h = DefaultHasher::new();
    for e in events.iter() {
        e.to_json().hash(&mut h);
    }
    (s3, format!("{:016x}", h.finish()))
}

#[allow(dead_code)]
fn replica<S: State + Serialize>(opt: &BuildOptimiser, state: &S, index: u64, first_steps: u64) -> (String, Option<f64>, String) {
    verif::start_recording();
    let s1 = opt
        .clone()
        .steps(first_steps)
        .kt_start(0.)
        .seed(index)
        .convergence(None)
        .build()
        .optimise_state(state.clone());
    let s2 = opt.clone().seed(index).build().optimise_state(s1);
    let s3 = opt.clone().kt_start(0.).seed(index).build().optimise_state(s2);
    let events = verif::take_recording();
    let mut h = DefaultHasher::new();
    for e in events.iter() {
        e.to_json().hash(&mut h);
    }
    let _: &Vec<Event> = &events;
    (
        serde_json::to_string(&s3).unwrap_or_default(),
        s3.score(),
        format!("{:016x}", h.finish()),
    )
}

fn digest(s: &str) -> String {
    let mut h = DefaultHasher::new();
    s.hash(&mut h);
    format!("{:016x}", h.finish())
}

fn one_config<S>(
    out: &mut Vec<Value>,
    cfg_id: usize,
    desc: &str,
    state: S,
    opt_args: &[&str],
    reps: u64,
    pools: &[(usize, rayon::ThreadPool)],
) where
    S: State + Serialize + 'static,
{
    let opt = builder(opt_args);
    let before = serde_json::to_string(&state).unwrap_or_default();
    // isolated sequential references: a fresh OS thread per replica (fresh thread-local state)
    let mut reference = vec![];
    for i in 0..reps {
        let st = state.clone();
        let o = opt.clone();
        let r = std::thread::spawn(move || {
            let (s, d) = replica_state(&o, &st, i, 200);
            (serde_json::to_string(&s).unwrap_or_default(), s.score(), d)
        })
        .join();
        match r {
            Ok(x) => reference.push(x),
            Err(_) => {
                out.push(json!({"ev": "invoke", "cfg": cfg_id, "desc": desc, "kind": "lib", "threads": 0, "reps": reps, "panic": true}));
                return;
            }
        }
    }
    let emit = |out: &mut Vec<Value>,
                threads: usize,
                results: &[(String, Option<f64>, String)],
                best: Option<(String, Option<f64>)>,
                input_after: &str| {
        out.push(json!({"ev": "invoke", "cfg": cfg_id, "desc": desc, "kind": "lib", "threads": threads, "reps": reps}));
        for (i, (js, score, dg)) in results.iter().enumerate() {
            out.push(json!({"ev": "replica", "r": i, "score_bits": score.map(hex), "digest": dg, "state_digest": digest(js)}));
        }
        out.push(json!({"ev": "output", "code": 0, "json": true, "svg": true, "input_unchanged": input_after == before,
                        "written_bits": best.as_ref().and_then(|b| b.1).map(hex),
                        "json_digest": best.as_ref().map(|b| digest(&b.0))}));
    };
    // the reduction of main.rs with the states' own ordering, sequentially
    let seq_best = {
        let st = state.clone();
        let o = opt.clone();
        std::thread::spawn(move || {
            (0..reps)
                .map(|i| replica_state(&o, &st, i, 200).0)
                .max()
                .map(|s| (serde_json::to_string(&s).unwrap_or_default(), s.score()))
        })
        .join()
        .unwrap_or(None)
    };
    emit(out, 0, &reference, seq_best, &serde_json::to_string(&state).unwrap_or_default());
    for (n, pool) in pools.iter() {
        let st = &state;
        let o = &opt;
        let results: Vec<(String, Option<f64>, String)> = pool.install(|| {
            (0..reps)
                .into_par_iter()
                .map(|i| {
                    let (s, d) = replica_state(o, st, i, 200);
                    (serde_json::to_string(&s).unwrap_or_default(), s.score(), d)
                })
                .collect()
        });
        // and once more as main.rs does it: map in parallel, reduce with max()
        let best = pool.install(|| {
            (0..reps)
                .into_par_iter()
                .map(|i| replica_state(o, st, i, 200).0)
                .max()
                .map(|s| (serde_json::to_string(&s).unwrap_or_default(), s.score()))
        });
        emit(out, *n, &results, best, &serde_json::to_string(&state).unwrap_or_default());
    }
}

/// Comparisons of real states whose scores differ by as little as one ulp and by as much as a
/// factor: cmp, == and max must follow the scores.
fn compare_states(out: &mut Vec<Value>) {
    fn emit<S: State>(out: &mut Vec<Value>, desc: &str, a: &S, b: &S) {
        let (sa, sb) = match (a.score(), b.score()) {
            (Some(x), Some(y)) => (x, y),
            _ => return,
        };
        let ord = std::panic::catch_unwind(std::panic::AssertUnwindSafe(|| match a.cmp(b) {
            std::cmp::Ordering::Less => -1,
            std::cmp::Ordering::Equal => 0,
            std::cmp::Ordering::Greater => 1,
        }))
        .unwrap_or(9);
        let maxb = std::cmp::max(a.clone(), b.clone()).score().map(f64::to_bits) == Some(sb.to_bits())
            && (sa.to_bits() != sb.to_bits() || true);
        out.push(json!({"ev": "cmp", "desc": desc, "a_bits": hex(sa), "b_bits": hex(sb), "ord": ord, "eq": a == b,
                        "maxb": if sa == sb { true } else { maxb }}));
    }
    // hard squares in p1 whose cell lengths differ by a few ulps up to a percent
    let g = group("p1");
    let base = PackedState::from_group(LineShape::polygon(4).unwrap(), &g).unwrap();
    let j0 = serde_json::to_value(&base).unwrap();
    let mk = |len: f64| -> PackedState<LineShape> {
        let mut j = j0.clone();
        j["cell"]["length"] = json!(len);
        serde_json::from_value(j).unwrap()
    };
    let l0 = 3.3;
    let lens: Vec<f64> = vec![l0, f64::from_bits(l0.to_bits() + 1), f64::from_bits(l0.to_bits() + 2), l0 * (1. + 1e-12),
                              l0 * (1. + 3e-9), l0 * (1. + 6e-9), l0 * (1. + 9e-9), l0 * (1. + 1e-6), l0 * 1.01, l0 * 2.];
    let states: Vec<PackedState<LineShape>> = lens.iter().map(|l| mk(*l)).collect();
    for a in states.iter() {
        for b in states.iter() {
            emit(out, "hard squares p1", a, b);
        }
    }
    // Lennard-Jones circles in p2: scores of both signs, tiny and large differences
    let g = group("p2");
    let base = PotentialState::from_group(LJShape2::circle(), &g).unwrap();
    let j0 = serde_json::to_value(&base).unwrap();
    let mk = |len: f64| -> PotentialState<LJShape2> {
        let mut j = j0.clone();
        j["cell"]["length"] = json!(len);
        serde_json::from_value(j).unwrap()
    };
    let lens: Vec<f64> = vec![1.9, 1.9 * (1. + 1e-15), 1.9 * (1. + 2e-9), 1.9 * (1. + 4e-9), 1.9 * (1. + 7e-9), 2.3, 2.3 * (1. + 1e-9), 3.0, 1.5, 1.45];
    let states: Vec<PotentialState<LJShape2>> = lens.iter().map(|l| mk(*l)).collect();
    for a in states.iter() {
        for b in states.iter() {
            emit(out, "lj circles p2", a, b);
        }
    }
}

pub fn pool_runs(outp: &str, thorough: bool, seed: u64) {
    std::panic::set_hook(Box::new(|_| {}));
    let mut out: Vec<Value> = vec![];
    compare_states(&mut out);
    let thread_counts: Vec<usize> = if thorough { vec![1, 2, 3, 4, 6, 8, 12, 16] } else { vec![1, 2, 4, 16] };
    // the pools live for the whole run: a worker thread that optimised one shape optimises another
    // later (as a long-lived process using the library would)
    let threads: Vec<(usize, rayon::ThreadPool)> = thread_counts
        .iter()
        .filter_map(|n| rayon::ThreadPoolBuilder::new().num_threads(*n).build().ok().map(|p| (*n, p)))
        .collect();
    let reps = if thorough { 12 } else { 6 };
    let steps = if thorough { "600" } else { "200" };
    let seedtxt = format!("{}", 0.05 + 0.01 * (seed % 7) as f64);
    let args: Vec<&str> = vec!["--steps", steps, "--inner-steps", "50", "--kt-start", &seedtxt, "--kt-ratio", "0.2", "--max-step-size", "0.05"];
    let mut id = 0;
    // hard trimers of two geometries that share a name, polygons, LJ in a four-copy group with a
    // compact cell (periodic images inside the cutoff), LJ circle
    let mk_lj_compact = |g: &str| -> Option<PotentialState<LJShape2>> {
        let st = PotentialState::from_group(LJShape2::from_trimer(0.637556, 120., 1.), &group(g)).ok()?;
        let mut j = serde_json::to_value(&st).ok()?;
        j["cell"]["length"] = json!(5.5);
        serde_json::from_value(j).ok()
    };
    for g in ["p2", "p2gg", "p1m1"].iter() {
        if let Ok(st) = PackedState::from_group(MolecularShape2::from_trimer(1., 180., 2.), &group(g)) {
            id += 1;
            one_config(&mut out, id, &format!("{} hard trimer(1,180,2)", g), st, &args, reps, &threads);
        }
        if let Ok(st) = PackedState::from_group(MolecularShape2::from_trimer(0.637556, 120., 1.), &group(g)) {
            id += 1;
            one_config(&mut out, id, &format!("{} hard trimer(0.637556,120,1)", g), st, &args, reps, &threads);
        }
        // same name, same radii, another geometry
        if let Ok(st) = PackedState::from_group(MolecularShape2::from_trimer(0.637556, 60., 1.), &group(g)) {
            id += 1;
            one_config(&mut out, id, &format!("{} hard trimer(0.637556,60,1)", g), st, &args, reps, &threads);
        }
        if let Ok(st) = PackedState::from_group(LineShape::polygon(5).unwrap(), &group(g)) {
            id += 1;
            one_config(&mut out, id, &format!("{} hard pentagon", g), st, &args, reps, &threads);
        }
    }
    for g in ["p2gg", "p2mg", "p2mm", "p2"].iter() {
        if let Some(st) = mk_lj_compact(g) {
            id += 1;
            one_config(&mut out, id, &format!("{} lj trimer compact cell", g), st, &args, reps, &threads);
        }
    }
    // a cut Lennard-Jones disc in a cell narrower than a third of its range (more than three
    // shells of images are summed)
    for g in ["p1", "p2"].iter() {
        let disc = LJShape2 {
            name: "cut disc".into(),
            items: vec![packing::LJ2 { position: nalgebra::Point2::new(0., 0.), sigma: 1., epsilon: 1., cutoff: Some(3.5) }],
        };
        if let Ok(st) = PotentialState::from_group(disc, &group(g)) {
            if let Ok(mut j) = serde_json::to_value(&st) {
                j["cell"]["length"] = json!(if *g == "p1" { 1.13 } else { 2.26 });
                if *g == "p2" {
                    j["cell"]["ratio"] = json!(0.5);
                }
                if let Ok(st) = serde_json::from_value::<PotentialState<LJShape2>>(j) {
                    id += 1;
                    one_config(&mut out, id, &format!("{} lj cut disc, narrow cell", g), st, &args, reps, &threads);
                }
            }
        }
    }
    // a disc with a long cutoff in a small cell: several hundred images per energy sum (a sum
    // that is split over worker threads must still add in one order)
    {
        let disc = LJShape2 {
            name: "long range disc".into(),
            items: vec![packing::LJ2 { position: nalgebra::Point2::new(0., 0.), sigma: 1., epsilon: 1., cutoff: Some(20.) }],
        };
        if let Ok(st) = PotentialState::from_group(disc, &group("p1")) {
            if let Ok(mut j) = serde_json::to_value(&st) {
                j["cell"]["length"] = json!(1.5);
                if let Ok(st) = serde_json::from_value::<PotentialState<LJShape2>>(j) {
                    id += 1;
                    let short: Vec<&str> = vec!["--steps", "60", "--inner-steps", "20", "--kt-start", "0", "--max-step-size", "0.02"];
                    one_config(&mut out, id, "p1 lj disc with cutoff 20, small cell", st, &short, reps, &threads);
                }
            }
        }
    }
    // a state with three occupied sites (library API), constructed anew for every invocation: equal
    // arguments must give equal states, whatever container the constructor uses internally
    {
        id += 1;
        let short: Vec<&str> = vec!["--steps", "40", "--inner-steps", "20", "--kt-start", "0.05", "--kt-ratio", "0.3", "--max-step-size", "0.05"];
        let g = group("p2mm");
        let small: Vec<(usize, rayon::ThreadPool)> = [1usize, 3]
            .iter()
            .filter_map(|n| rayon::ThreadPoolBuilder::new().num_threads(*n).build().ok().map(|p| (*n, p)))
            .collect();
        for _ in 0..(if thorough { 12 } else { 6 }) {
            let sites: Vec<packing::wallpaper::WyckoffSite> = ['a', 'b', 'c']
                .iter()
                .filter_map(|l| packing::wallpaper::WyckoffSite::new(&g).ok().map(|mut s| {
                    s.letter = *l;
                    s
                }))
                .collect();
            let st = PackedState::initialise(LineShape::polygon(4).unwrap(), packing::wallpaper::Wallpaper::new(&g), &sites);
            // the three sites apart from each other, as a user would place them
            if let Ok(mut j) = serde_json::to_value(&st) {
                for (k, (x, y)) in [(0.1, 0.1), (0.3, 0.2), (0.2, 0.4)].iter().enumerate() {
                    // by letter, so that the placement does not depend on the order of the sites
                    if let Some(sites) = j["occupied_sites"].as_array_mut() {
                        for s in sites.iter_mut() {
                            if s["wyckoff"]["letter"].as_str() == Some(&['a', 'b', 'c'][k].to_string()) {
                                s["x"] = json!(x);
                                s["y"] = json!(y);
                            }
                        }
                    }
                }
                if let Ok(st) = serde_json::from_value::<PackedState<LineShape>>(j) {
                    one_config(&mut out, id, "p2mm squares on three sites, constructed per invocation", st, &short, 2, &small);
                }
            }
        }
    }
    // a ratio above one (the temperature drops to zero after the first loop), run again and again
    // in one process
    if let Ok(st) = PackedState::from_group(MolecularShape2::circle(), &group("p2")) {
        id += 1;
        let quench: Vec<&str> = vec!["--steps", "60", "--inner-steps", "20", "--kt-start", "0.1", "--kt-ratio", "1.5", "--max-step-size", "0.05"];
        one_config(&mut out, id, "p2 circle, kt_ratio 1.5", st, &quench, reps, &threads);
    }
    // short hot runs: final LJ scores of both signs
    let hot: Vec<&str> = vec!["--steps", "10", "--inner-steps", "10", "--kt-start", "100", "--kt-ratio", "0", "--max-step-size", "0.1"];
    if let Ok(st) = PotentialState::from_group(LJShape2::circle(), &group("p1")) {
        id += 1;
        one_config(&mut out, id, "p1 lj circle hot", st, &hot, reps, &threads);
    }
    if let Ok(st) = PotentialState::from_group(LJShape2::circle(), &group("p2mg")) {
        id += 1;
        one_config(&mut out, id, "p2mg lj circle", st, &args, reps, &threads);
    }
    let mut fo = fs::File::create(outp).expect("out");
    for v in out {
        writeln!(fo, "{}", v).unwrap();
    }
}
