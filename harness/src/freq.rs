//! Statistical side-checks (outside TLC; 6-sigma binomial bounds).
//!  C07: a proposal worse by d is kept with probability exp(-d/kT): frequency over many
//!       independent controlled downhill moves at constant temperature.
//!  C18: the temperature of every inner loop inferred from the acceptance frequency of that loop
//!       (no hook involved: kept/discarded is read from the cells) against the requested schedule.

use std::fs;
use std::io::Write;

use serde_json::{json, Value};

use crate::optrace::Req;
use crate::states::{Brain, Script, Scripted};

fn run(req: &Req, down: f64, block: usize) -> Option<Vec<usize>> {
    let mut script = Script::new("", 'D', 1);
    script.down = down;
    script.block = block;
    script.held_score = 1000.;
    // a wide range and a tiny step: the proposal never coincides with the held vector
    let state = Scripted::new(&[0.5], &[(0., 1.)], Brain::Script(script));
    let keep = state.clone();
    let r = crate::optrace::run_scripted("frequency", req, state);
    if r.panicked.is_some() {
        return None;
    }
    let kept = match &*keep.inner.brain.lock().unwrap() {
        Brain::Script(s) => s.kept.clone(),
        _ => vec![],
    };
    Some(kept)
}

pub fn frequency(out: &str, thorough: bool, seed: u64) {
    std::panic::set_hook(Box::new(|_| {}));
    let n: u64 = if thorough { 400_000 } else { 60_000 };
    let mut tests: Vec<Value> = vec![];
    let mut failures: Vec<Value> = vec![];
    // C07: constant temperature (kt_ratio 0), one loop
    for (k, (d, kt)) in [(0.1, 0.1), (0.05, 0.1), (0.3, 0.1), (0.001, 0.001), (0.2, 1.0), (2.0, 1.0)].iter().enumerate() {
        let req = Req {
            steps: n,
            inner: n,
            kt_start: *kt,
            kt_finish: None,
            kt_ratio: Some(0.),
            max_step: 1e-6,
            convergence: None,
            seed: seed * 100 + k as u64,
        };
        if let Some(kept) = run(&req, *d, n as usize) {
            let acc = kept.get(0).cloned().unwrap_or(0) as f64;
            let p = f64::exp(-d / kt);
            let sigma = (p * (1. - p) / n as f64).sqrt();
            let dev = (acc / n as f64 - p) / sigma;
            tests.push(json!({"clause": "C07", "d": d, "kt": kt, "n": n, "kept": acc, "p": p, "deviation_sigma": dev}));
            if dev.abs() > 6. {
                failures.push(json!({"what": format!("acceptance frequency {:.5} of a move worse by {} at kT {} is {:.1} sigma from exp(-d/kT) = {:.5}", acc / n as f64, d, kt, dev, p),
                    "state": {"d": d, "kt": kt, "n": n, "kept": acc}}));
            }
        }
    }
    // C18: cooling schedules, temperature inferred per loop
    let loops = 6u64;
    let inner = n / 4;
    for (k, (start, finish, ratio)) in [(0.5, Some(0.05), None), (0.2, None, Some(0.3)), (0.1, Some(0.4), None)].iter().enumerate() {
        let req = Req {
            steps: loops * inner,
            inner,
            kt_start: *start,
            kt_finish: *finish,
            kt_ratio: *ratio,
            max_step: 1e-6,
            convergence: None,
            seed: seed * 100 + 50 + k as u64,
        };
        let d = 0.1;
        if let Some(kept) = run(&req, d, inner as usize) {
            let f = match (ratio, finish) {
                (Some(r), _) => 1. - r,
                (None, Some(fin)) => (fin / start).powf(1. / loops as f64),
                _ => 1.,
            };
            // the property allows "within one cooling step": the factor may also aim at the last loop
            let f_alt = match (ratio, finish) {
                (None, Some(fin)) => (fin / start).powf(1. / (loops - 1) as f64),
                _ => f,
            };
            for (l, a) in kept.iter().enumerate().take(loops as usize) {
                let freq = *a as f64 / inner as f64;
                let cands = [start * f.powi(l as i32), start * f_alt.powi(l as i32)];
                let mut best = std::f64::INFINITY;
                for kt in cands.iter() {
                    let p = f64::exp(-d / kt);
                    let sigma = (p * (1. - p) / inner as f64).sqrt().max(1e-12);
                    best = best.min(((freq - p) / sigma).abs());
                }
                tests.push(json!({"clause": "C18", "start": start, "finish": finish, "ratio": ratio, "loop": l + 1,
                                  "kept_fraction": freq, "deviation_sigma": best}));
                if best > 6. {
                    failures.push(json!({"what": format!("loop {}: acceptance frequency {:.5} does not correspond to the scheduled temperature ({:.1} sigma)", l + 1, freq, best),
                        "state": {"start": start, "finish": finish, "ratio": ratio, "loop": l + 1, "kept_fraction": freq}}));
                }
            }
        }
    }
    let res = json!({"tests": tests, "failures": failures.len(), "first_failures": failures.iter().take(10).collect::<Vec<_>>()});
    let mut fo = fs::File::create(out).expect("out");
    writeln!(fo, "{}", res).unwrap();
}
