//! Exhaustive floating-point overlap oracle for hard states, working from the JSON form of a
//! state only (cell, sites, shape items) and a reference table of the groups.  It is used on
//! recorded optimisation histories (states off every rational grid).  It is *calibrated*: on
//! every grid state TLC enumerates, `pvh crystal` compares its verdict with TLC's exact one.
//!
//! The number of shells searched comes from the ShellBound lemma of spec/Crystal.tla:
//! an image whose centre is within 2R of a copy in the home cell has |m| <= 2R/(b sin t) + 1 and
//! |n| <= 2R/(a sin t) + 1 (rows of images are one cell height apart; positions are wrapped into
//! the half-open cell so two copies differ by less than one cell vector).

use serde_json::Value;

#[derive(Debug, Clone, Copy, PartialEq)]
pub enum Verdict {
    /// interiors intersect, by at least this depth
    Overlap(f64),
    Touch,
    Apart,
}

pub const BAND: f64 = 1e-9;

/// reference general positions: (a, b, c, d, tx, ty) with (x,y) -> (a x + b y + tx, c x + d y + ty)
pub fn ref_ops(group: &str) -> Vec<[f64; 6]> {
    let id = [1., 0., 0., 1., 0., 0.];
    match group {
        "p1" => vec![id],
        "p2" => vec![id, [-1., 0., 0., -1., 0., 0.]],
        "p1m1" => vec![id, [-1., 0., 0., 1., 0., 0.]],
        "p1g1" => vec![id, [-1., 0., 0., 1., 0., 0.5]],
        "p2mm" => vec![
            id,
            [-1., 0., 0., -1., 0., 0.],
            [-1., 0., 0., 1., 0., 0.],
            [1., 0., 0., -1., 0., 0.],
        ],
        "p2mg" | "p2mgM" => vec![
            id,
            [-1., 0., 0., -1., 0., 0.],
            [-1., 0., 0., 1., 0.5, 0.],
            [1., 0., 0., -1., 0.5, 0.],
        ],
        "p2gg" => vec![
            id,
            [-1., 0., 0., -1., 0., 0.],
            [-1., 0., 0., 1., 0.5, 0.5],
            [1., 0., 0., -1., 0.5, 0.5],
        ],
        _ => vec![id],
    }
}

fn wrap(v: f64) -> f64 {
    let w = v - (v + 0.5).floor();
    if w >= 0.5 {
        w - 1.
    } else {
        w
    }
}

pub enum Items {
    Poly(Vec<[f64; 2]>),
    Discs(Vec<[f64; 3]>),
}

pub fn items_of(shape: &Value) -> Option<Items> {
    let items = shape["items"].as_array()?;
    let first = items.get(0)?;
    if first.get("start").is_some() {
        let mut v = vec![];
        for it in items {
            let s = it["start"].as_array()?;
            v.push([s[0].as_f64()?, s[1].as_f64()?]);
        }
        Some(Items::Poly(v))
    } else if first.get("radius").is_some() {
        let mut v = vec![];
        for it in items {
            let p = it["position"].as_array()?;
            v.push([p[0].as_f64()?, p[1].as_f64()?, it["radius"].as_f64()?]);
        }
        Some(Items::Discs(v))
    } else {
        None
    }
}

fn enclosing(items: &Items) -> f64 {
    match items {
        Items::Poly(v) => v.iter().map(|p| (p[0] * p[0] + p[1] * p[1]).sqrt()).fold(0., f64::max),
        Items::Discs(v) => v
            .iter()
            .map(|p| (p[0] * p[0] + p[1] * p[1]).sqrt() + p[2])
            .fold(0., f64::max),
    }
}

/// signed separation of two convex polygons: > 0 gap, < 0 penetration depth (minimum
/// translation distance over the edge normals of both)
pub fn poly_sep(p: &[[f64; 2]], q: &[[f64; 2]]) -> f64 {
    let mut best = std::f64::NEG_INFINITY;
    for poly in [p, q].iter() {
        let n = poly.len();
        for i in 0..n {
            let a = poly[i];
            let b = poly[(i + 1) % n];
            let (mut nx, mut ny) = (b[1] - a[1], a[0] - b[0]);
            let len = (nx * nx + ny * ny).sqrt();
            if len == 0. {
                continue;
            }
            nx /= len;
            ny /= len;
            let proj = |pts: &[[f64; 2]]| {
                let mut lo = std::f64::INFINITY;
                let mut hi = std::f64::NEG_INFINITY;
                for v in pts {
                    let d = v[0] * nx + v[1] * ny;
                    lo = lo.min(d);
                    hi = hi.max(d);
                }
                (lo, hi)
            };
            let (plo, phi) = proj(p);
            let (qlo, qhi) = proj(q);
            let gap = f64::max(qlo - phi, plo - qhi);
            best = best.max(gap);
        }
    }
    best
}

fn classify(sep: f64) -> Verdict {
    if sep < -BAND {
        Verdict::Overlap(-sep)
    } else if sep > BAND {
        Verdict::Apart
    } else {
        Verdict::Touch
    }
}

fn worse(a: Verdict, b: Verdict) -> Verdict {
    match (a, b) {
        (Verdict::Overlap(x), Verdict::Overlap(y)) => Verdict::Overlap(x.max(y)),
        (Verdict::Overlap(x), _) | (_, Verdict::Overlap(x)) => Verdict::Overlap(x),
        (Verdict::Touch, _) | (_, Verdict::Touch) => Verdict::Touch,
        _ => Verdict::Apart,
    }
}

/// Exhaustive verdict for the crystal described by the JSON of a hard state.  `group` is the
/// group the state was requested for (reference operations, not the state's own table).
/// Returns the verdict and the offending pair description.
pub fn lattice_verdict(j: &Value, group: &str) -> Option<(Verdict, String)> {
    let cell = &j["cell"];
    let a = cell["length"].as_f64()?;
    let b = a * cell["ratio"].as_f64()?;
    let th = cell["angle"].as_f64()?;
    let (ax, bx, by) = (a, b * th.cos(), b * th.sin());
    let items = items_of(&j["shape"])?;
    let renc = enclosing(&items);
    let mut copies: Vec<([f64; 2], [f64; 4])> = vec![];
    for site in j["occupied_sites"].as_array()? {
        let (x, y, phi) = (
            site["x"].as_f64()?,
            site["y"].as_f64()?,
            site["angle"].as_f64()?,
        );
        let (c, s) = (phi.cos(), phi.sin());
        for op in ref_ops(group) {
            let fx = wrap(op[0] * x + op[1] * y + op[4]);
            let fy = wrap(op[2] * x + op[3] * y + op[5]);
            let lin = [
                op[0] * c + op[1] * s,
                -op[0] * s + op[1] * c,
                op[2] * c + op[3] * s,
                -op[2] * s + op[3] * c,
            ];
            copies.push(([fx, fy], lin));
        }
    }
    if !(by > 0.) || !(ax > 0.) {
        return None;
    }
    let km = (2. * renc / by).ceil() as i64 + 1;
    let kn = (2. * renc / (ax * th.sin())).ceil() as i64 + 1;
    if (2 * km + 1) * (2 * kn + 1) > 4_000_000 {
        return None;
    }
    let place = |f: &[f64; 2], lin: &[f64; 4], n: i64, m: i64| -> (f64, f64, Items) {
        let (fx, fy) = (f[0] + n as f64, f[1] + m as f64);
        let (px, py) = (fx * ax + fy * bx, fy * by);
        let it = match &items {
            Items::Poly(v) => Items::Poly(
                v.iter()
                    .map(|p| {
                        [
                            px + lin[0] * p[0] + lin[1] * p[1],
                            py + lin[2] * p[0] + lin[3] * p[1],
                        ]
                    })
                    .collect(),
            ),
            Items::Discs(v) => Items::Discs(
                v.iter()
                    .map(|p| {
                        [
                            px + lin[0] * p[0] + lin[1] * p[1],
                            py + lin[2] * p[0] + lin[3] * p[1],
                            p[2],
                        ]
                    })
                    .collect(),
            ),
        };
        (px, py, it)
    };
    let mut verdict = Verdict::Apart;
    let mut who = String::new();
    for (i, (f1, l1)) in copies.iter().enumerate() {
        let (p1x, p1y, s1) = place(f1, l1, 0, 0);
        for (k, (f2, l2)) in copies.iter().enumerate() {
            for n in -kn..=kn {
                for m in -km..=km {
                    if i == k && n == 0 && m == 0 {
                        continue;
                    }
                    // cheap centre filter
                    let (fx, fy) = (f2[0] + n as f64, f2[1] + m as f64);
                    let (qx, qy) = (fx * ax + fy * bx, fy * by);
                    let d2 = (qx - p1x) * (qx - p1x) + (qy - p1y) * (qy - p1y);
                    if d2 > (2. * renc + 1e-6) * (2. * renc + 1e-6) {
                        continue;
                    }
                    let (_, _, s2) = place(f2, l2, n, m);
                    let v = match (&s1, &s2) {
                        (Items::Poly(p), Items::Poly(q)) => classify(poly_sep(p, q)),
                        (Items::Discs(p), Items::Discs(q)) => {
                            let mut sep = std::f64::INFINITY;
                            for a in p {
                                for b in q {
                                    let d = ((a[0] - b[0]).powi(2) + (a[1] - b[1]).powi(2)).sqrt();
                                    sep = sep.min(d - a[2] - b[2]);
                                }
                            }
                            classify(sep)
                        }
                        _ => Verdict::Apart,
                    };
                    if let Verdict::Overlap(depth) = v {
                        let better = match verdict {
                            Verdict::Overlap(d0) => depth > d0,
                            _ => true,
                        };
                        if better {
                            who = format!("copy {} vs copy {} image ({},{}) depth {:.3e}", i, k, n, m, depth);
                        }
                    }
                    verdict = worse(verdict, v);
                }
            }
        }
    }
    Some((verdict, who))
}
