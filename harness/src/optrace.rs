//! Runs of the real optimiser, recorded and projected to the integer-only event log that
//! spec/OptimiserTrace.tla replays.

use std::collections::HashMap;
use std::panic::{catch_unwind, AssertUnwindSafe};

use packing::traits::State;
use packing::verif::Event;
use packing::BuildOptimiser;
use serde_json::{json, Value};
use structopt::StructOpt;

use crate::obs::{self, Raw};
use crate::states::{Recorder, Scripted};

/// What the harness asked for (the *requested* configuration; the hooks report what the
/// optimiser made of it).
#[derive(Clone, Debug)]
pub struct Req {
    pub steps: u64,
    pub inner: u64,
    pub kt_start: f64,
    pub kt_finish: Option<f64>,
    pub kt_ratio: Option<f64>,
    pub max_step: f64,
    pub convergence: Option<f64>,
    pub seed: u64,
}

impl Req {
    pub fn builder(&self) -> BuildOptimiser {
        // One builder reused for a quench and then for this run, through the setter methods (what
        // a library user does who does not clone): only for settings the setters can express.
        if self.seed % 3 == 0 && self.kt_ratio.is_none() && self.kt_finish.is_some() {
            let mut b = BuildOptimiser::default();
            b.kt_start(0.).steps(10).seed(1);
            let _quench = b.build();
            b.kt_start(self.kt_start)
                .kt_finish(self.kt_finish.unwrap())
                .steps(self.steps)
                .inner_steps(self.inner)
                .max_step_size(self.max_step)
                .convergence(self.convergence)
                .seed(self.seed);
            return b;
        }
        let mut args: Vec<String> = vec!["x".into()];
        args.push("--steps".into());
        args.push(format!("{}", self.steps));
        args.push("--inner-steps".into());
        args.push(format!("{}", self.inner));
        args.push(format!("--kt-start={}", self.kt_start));
        if let Some(f) = self.kt_finish {
            args.push(format!("--kt-finish={}", f));
        }
        if let Some(r) = self.kt_ratio {
            args.push(format!("--kt-ratio={}", r));
        }
        args.push(format!("--max-step-size={}", self.max_step));
        if let Some(c) = self.convergence {
            args.push(format!("--convergence={}", c));
        }
        let mut b = BuildOptimiser::from_iter_safe(args).expect("optimiser arguments");
        b.seed(self.seed);
        b
    }
    /// A ratio above one is only used together with a zero starting temperature (where the
    /// temperature must stay zero whatever the ratio); with a positive start the property's
    /// factor 1 - ratio would be negative, a configuration the drivers do not generate.
    pub fn sane(&self) -> Req {
        let mut r = self.clone();
        if r.kt_start > 0. && r.kt_ratio.map(|x| x > 1. || x < 0.).unwrap_or(false) {
            // (a negative ratio heats: the factor 1 - ratio as such is checked on the builder,
            // spec/Builder.tla; recorded runs keep to cooling schedules, whose windows the trace
            // specification knows)
            r.kt_ratio = Some(0.5);
        }
        r
    }
    pub fn inner_eff(&self) -> u64 {
        u64::max(1, u64::min(self.inner, self.steps))
    }
    pub fn loops(&self) -> u64 {
        self.steps / self.inner_eff()
    }
    pub fn describe(&self) -> String {
        format!(
            "steps={} inner={} kt_start={} kt_finish={:?} kt_ratio={:?} max_step={} conv={:?} seed={}",
            self.steps,
            self.inner,
            self.kt_start,
            self.kt_finish,
            self.kt_ratio,
            self.max_step,
            self.convergence,
            self.seed
        )
    }
}

/// One recorded run.
pub struct Run {
    pub desc: String,
    pub req: Req,
    pub bounds: Vec<(f64, f64)>,
    pub start_vec: Vec<f64>,
    pub chained: bool,
    pub check_range: bool,
    /// this run is the same as the previous one in the file except that it has no convergence
    /// threshold: the previous run must be a prefix of it
    pub prefix_ref: bool,
    /// keep the evaluation history of this run: the next run is checked to be a prefix of it
    pub keep_hist: bool,
    /// with prefix_ref: the run must also be as long as the reference (an identical continuation)
    pub same_length: bool,
    pub raw: Vec<Raw>,
    pub panicked: Option<String>,
    pub end_vec: Vec<f64>,
}

fn panic_msg(e: Box<dyn std::any::Any + Send>) -> String {
    if let Some(s) = e.downcast_ref::<&str>() {
        s.to_string()
    } else if let Some(s) = e.downcast_ref::<String>() {
        s.clone()
    } else {
        "panic".to_string()
    }
}

pub fn run_scripted(desc: &str, req: &Req, state: Scripted) -> Run {
    let req = &req.sane();
    let bounds = state.inner.bounds.clone();
    let start_vec = state.vector();
    let reader_state = state.clone();
    let ev_state = state.clone();
    obs::begin(
        Box::new(move || reader_state.vector()),
        Some(Box::new(move |ev: &Event, truth: &[f64]| {
            ev_state.on_event(ev, truth)
        })),
    );
    let keep = state.clone();
    let res = catch_unwind(AssertUnwindSafe(|| {
        let opt = req.builder().build();
        let out = opt.optimise_state(state);
        // the caller scores what it got back
        let _ = out.score();
    }));
    let raw = obs::end();
    Run {
        desc: desc.to_string(),
        req: req.clone(),
        bounds,
        start_vec,
        chained: false,
        check_range: true,
        prefix_ref: false,
        keep_hist: false,
        same_length: false,
        raw,
        panicked: res.err().map(panic_msg),
        end_vec: keep.vector(),
    }
}

/// Run one stage on a real state.  Returns the run and the resulting state (as JSON) so that
/// stages can be chained.
/// `run_real` with every score compared with the score of a fresh copy of the state (written to
/// JSON and read back): the score is a function of the state as it is, not of its history.
pub fn run_real_fresh<S>(
    desc: &str,
    req: &Req,
    state: S,
    family: &'static str,
    chained: bool,
) -> (Run, Option<S>)
where
    S: State + serde::de::DeserializeOwned + 'static,
{
    FRESH_WANTED.with(|f| *f.borrow_mut() = true);
    let keep: std::rc::Rc<std::cell::RefCell<Option<std::sync::Arc<S>>>> = std::rc::Rc::new(std::cell::RefCell::new(None));
    let k2 = keep.clone();
    FRESH_HOOK.with(|h| {
        *h.borrow_mut() = Some(Box::new(move |any: &dyn std::any::Any| {
            if let Some(arc) = any.downcast_ref::<std::sync::Arc<S>>() {
                *k2.borrow_mut() = Some(arc.clone());
            }
        }))
    });
    let k3 = keep.clone();
    obs::set_fresh(Some(Box::new(move || {
        let arc = k3.borrow().clone()?;
        let text = serde_json::to_string(&*arc).ok()?;
        let copy: S = serde_json::from_str(&text).ok()?;
        Some(copy.score())
    })));
    let r = run_real(desc, req, state, family, chained);
    obs::set_fresh(None);
    FRESH_WANTED.with(|f| *f.borrow_mut() = false);
    FRESH_HOOK.with(|h| *h.borrow_mut() = None);
    r
}

thread_local! {
    static FRESH_WANTED: std::cell::RefCell<bool> = std::cell::RefCell::new(false);
    static FRESH_HOOK: std::cell::RefCell<Option<Box<dyn Fn(&dyn std::any::Any)>>> = std::cell::RefCell::new(None);
}

pub fn run_real<S>(
    desc: &str,
    req: &Req,
    state: S,
    family: &'static str,
    chained: bool,
) -> (Run, Option<S>)
where
    S: State + 'static,
{
    let req = &req.sane();
    let j = serde_json::to_value(&state).unwrap_or(Value::Null);
    let bounds = crate::states::declared_bounds(&j, family);
    let start_vec = crate::states::full_vector(&j, family);
    let rec = Recorder::new(state, family);
    let reader = rec.inner.clone();
    obs::begin(
        Box::new(move || Recorder::<S>::vector_of(&reader, family)),
        None,
    );
    let keep = rec.inner.clone();
    if FRESH_WANTED.with(|f| *f.borrow()) {
        FRESH_HOOK.with(|h| {
            if let Some(f) = h.borrow().as_ref() {
                f(&keep as &dyn std::any::Any)
            }
        });
    }
    let res = catch_unwind(AssertUnwindSafe(|| {
        let opt = req.builder().build();
        let out = opt.optimise_state(rec);
        // the caller scores what it got back
        let _ = out.score();
    }));
    let raw = obs::end();
    let end_vec = Recorder::<S>::vector_of(&keep, family);
    let check_range = start_vec
        .iter()
        .zip(bounds.iter())
        .all(|(v, (lo, hi))| *v >= *lo && *v <= *hi);
    let out_state = (*keep).clone();
    (
        Run {
            desc: desc.to_string(),
            req: req.clone(),
            bounds,
            start_vec,
            chained,
            check_range,
            prefix_ref: false,
            keep_hist: false,
            same_length: false,
            raw,
            panicked: res.err().map(panic_msg),
            end_vec,
        },
        Some(out_state),
    )
}

// ------------------------------------------------------------------------------------------
// projection
// ------------------------------------------------------------------------------------------

pub const FXS: f64 = 1e6;
const IMAX: i64 = 2_000_000_000;

pub fn fx(v: f64) -> i64 {
    if !v.is_finite() {
        return IMAX;
    }
    let x = (v * FXS).round();
    if x > IMAX as f64 {
        IMAX
    } else if x < -(IMAX as f64) {
        -IMAX
    } else {
        x as i64
    }
}

pub struct Projector {
    tokens: HashMap<u64, usize>,
    pub tok_fx: Vec<i64>,
    scores: Vec<f64>,
}

impl Projector {
    pub fn new() -> Self {
        Projector {
            tokens: HashMap::new(),
            tok_fx: vec![],
            scores: vec![],
        }
    }
    fn tok(&mut self, v: f64) -> usize {
        let bits = v.to_bits();
        if let Some(t) = self.tokens.get(&bits) {
            return *t;
        }
        self.tok_fx.push(fx(v));
        let t = self.tok_fx.len();
        self.tokens.insert(bits, t);
        t
    }
    fn toks(&mut self, v: &[f64]) -> Vec<usize> {
        v.iter().map(|x| self.tok(*x)).collect()
    }
    fn note_score(&mut self, s: Option<f64>) {
        if let Some(x) = s {
            if x.is_finite() {
                self.scores.push(x);
            }
        }
    }
    fn finish_ranks(&mut self) {
        self.scores
            .sort_by(|a, b| a.partial_cmp(b).unwrap_or(std::cmp::Ordering::Equal));
        self.scores.dedup_by(|a, b| a == b);
    }
    fn rank(&self, s: Option<f64>) -> i64 {
        match s {
            None => -1,
            Some(x) if !x.is_finite() => -2,
            Some(x) => {
                // -0.0 and 0.0 compare equal: same rank
                match self
                    .scores
                    .binary_search_by(|p| p.partial_cmp(&x).unwrap_or(std::cmp::Ordering::Equal))
                {
                    Ok(i) => i as i64,
                    Err(i) => i as i64,
                }
            }
        }
    }
    pub fn max_rank(&self) -> i64 {
        self.scores.len() as i64
    }
}

fn kt_json(kt: f64) -> Value {
    if kt == 0. && kt.is_sign_positive() {
        json!({"cls": "zero", "lvl": 0})
    } else if kt > 0. {
        // +inf is a legitimate (if extreme) temperature: its logarithm saturates the fixed point
        json!({"cls": "pos", "lvl": fx(kt.ln())})
    } else {
        json!({"cls": "bad", "lvl": 0})
    }
}

fn cfg_json(run: &Run) -> Value {
    let r = &run.req;
    let n = run.start_vec.len();
    let lo: Vec<i64> = run.bounds.iter().map(|b| (b.0 * FXS).floor() as i64).collect();
    let hi: Vec<i64> = run.bounds.iter().map(|b| (b.1 * FXS).ceil() as i64).collect();
    let maxd: Vec<i64> = run
        .bounds
        .iter()
        .map(|b| {
            let m = r.max_step * 0.5 * (b.1 - b.0);
            let x = (m * FXS).ceil();
            if x > IMAX as f64 {
                IMAX
            } else {
                x as i64 + 1
            }
        })
        .collect();
    let loops = r.loops();
    let pos_start = r.kt_start > 0.;
    let mut sched = "none";
    let mut fzero = false;
    let mut any_factor = true;
    let mut dln_lo: i64 = 0;
    let mut dln_hi: i64 = 0;
    let mut last_lo: i64 = 0;
    let mut last_hi: i64 = 0;
    if let Some(ratio) = r.kt_ratio {
        sched = "ratio";
        any_factor = false;
        let f = 1. - ratio;
        if f == 0. {
            fzero = true;
        } else {
            dln_lo = fx(f.ln());
            dln_hi = dln_lo;
        }
    } else if let Some(fin) = r.kt_finish {
        sched = "finish";
        any_factor = false;
        if pos_start {
            if fin == 0. {
                fzero = true;
            } else if loops >= 1 {
                let total = fin.ln() - r.kt_start.ln();
                let da = total / loops as f64;
                let db = if loops > 1 {
                    total / (loops - 1) as f64
                } else {
                    da
                };
                dln_lo = fx(f64::min(da, db));
                dln_hi = fx(f64::max(da, db));
                let step = f64::max(da.abs(), db.abs());
                last_lo = fx(fin.ln() - step);
                last_hi = fx(fin.ln() + step);
            }
        }
    }
    json!({
        "n": n, "lo": lo, "hi": hi, "maxd": maxd, "capMax": 1_000_000,
        "steps": r.steps, "innerReq": r.inner,
        "ktStart": if pos_start { "pos" } else { "zero" },
        "ktLvl": if pos_start { fx(r.kt_start.ln()) } else { 0 },
        "sched": sched, "fzero": fzero, "anyFactor": any_factor,
        "dlnLo": dln_lo, "dlnHi": dln_hi, "dlnAsWritten": 0,
        "lastLo": last_lo, "lastHi": last_hi,
        "convOn": r.convergence.is_some(), "thr": 0,
        "checkRange": run.check_range,
        "prefixRef": run.prefix_ref,
        "keepHist": run.keep_hist,
        "sameLength": run.same_length,
    })
}

/// number of coordinates strictly outside their declared range (exact f64 comparison)
fn outside(v: &[f64], bounds: &[(f64, f64)]) -> usize {
    v.iter()
        .zip(bounds.iter())
        .filter(|(x, (lo, hi))| !(**x >= *lo && **x <= *hi))
        .count()
}

/// Coordinate (1-based) of the proposal: the one cell that differs from `base`; if none
/// differs, the coordinate whose value equals the hooked `before` at the hooked index.
fn changed_coord(base: &[f64], now: &[f64], hook_index: usize) -> usize {
    let changed: Vec<usize> = (0..now.len().min(base.len()))
        .filter(|i| base[*i].to_bits() != now[*i].to_bits())
        .collect();
    if !changed.is_empty() {
        return changed[0] + 1;
    }
    if hook_index < now.len() {
        hook_index + 1
    } else {
        1
    }
}

pub struct FileStats {
    pub runs: usize,
    pub events: usize,
    pub accepts: usize,
    pub rejects: usize,
    pub undefined: usize,
    pub clamped: usize,
    pub panics: usize,
    pub early: usize,
    pub metro_yes: usize,
    pub metro_no: usize,
    pub metro_unsure: usize,
}

/// Project the runs to ndjson lines (+ token table).
pub fn project(runs: &[Run]) -> (Vec<String>, Vec<i64>, FileStats) {
    let mut p = Projector::new();
    // pass 1: all scores
    for run in runs {
        for r in &run.raw {
            match r {
                Raw::Score(_, s) => p.note_score(*s),
                Raw::Hook(Event::Decide { score_current, .. }, _) => {
                    p.note_score(Some(*score_current))
                }
                Raw::Hook(Event::Start { score, .. }, _) => p.note_score(Some(*score)),
                _ => {}
            }
        }
    }
    p.finish_ranks();
    let mut st = FileStats {
        runs: runs.len(),
        events: 0,
        accepts: 0,
        rejects: 0,
        undefined: 0,
        clamped: 0,
        panics: 0,
        early: 0,
        metro_yes: 0,
        metro_no: 0,
        metro_unsure: 0,
    };
    let mut lines: Vec<String> = vec![];
    for (ri, run) in runs.iter().enumerate() {
        let start_toks = p.toks(&run.start_vec);
        lines.push(
            json!({"ev": "start", "run": ri, "desc": run.desc, "cfg": cfg_json(run),
                   "val": start_toks, "chained": run.chained, "out": outside(&run.start_vec, &run.bounds)})
            .to_string(),
        );
        // state of the fold
        let mut seen_start_hook = false;
        let mut began = false;
        let mut in_flight = false;
        let mut have_draw = false;
        let mut have_eval = false;
        let mut prop_vec: Vec<f64> = vec![];
        let mut base: Vec<f64> = run.start_vec.clone();
        let mut cur: f64 = std::f64::NAN; // optimiser's belief
        let mut held: f64 = std::f64::NAN; // observed score of the state that is held
        let mut lstart: f64 = std::f64::NAN;
        let mut new_score: Option<f64> = None;
        let mut last_rej: u64 = 0;
        let mut kt_now: f64 = run.req.kt_start;
        let mut returned = false;
        for r in &run.raw {
            match r {
                Raw::Score(vec, s) => {
                    if !began {
                        began = true;
                        lines.push(json!({"ev": "begin", "score": p.rank(*s)}).to_string());
                        if let Some(x) = s {
                            cur = *x;
                            held = *x;
                            lstart = *x;
                        }
                    } else if in_flight {
                        new_score = *s;
                        have_eval = true;
                        have_draw = false;
                        if s.is_none() {
                            st.undefined += 1;
                        }
                        lines.push(
                            json!({"ev": "eval", "val": p.toks(vec), "score": p.rank(*s), "out": outside(vec, &run.bounds), "fresh": true})
                                .to_string(),
                        );
                    } else if returned {
                        lines.push(json!({"ev": "observe", "score": p.rank(*s)}).to_string());
                    } else {
                        lines.push(
                            json!({"ev": "final", "val": p.toks(vec), "score": p.rank(*s), "out": outside(vec, &run.bounds)})
                                .to_string(),
                        );
                    }
                }
                Raw::Stale(..) => {
                    // belongs to the score() call recorded just before it
                    if let Some(last) = lines.last_mut() {
                        if last.contains("\"ev\":\"eval\"") {
                            *last = last.replace("\"fresh\":true", "\"fresh\":false");
                        }
                    }
                }
                Raw::Hook(ev, vec) => match ev {
                    Event::Start { .. } => {
                        seen_start_hook = true;
                    }
                    Event::Propose {
                        index,
                        before,
                        after,
                        ..
                    } => {
                        in_flight = true;
                        have_eval = false;
                        have_draw = false;
                        prop_vec = vec.clone();
                        let i = changed_coord(&base, vec, *index);
                        if before.to_bits() != after.to_bits()
                            && (i - 1 < run.bounds.len())
                            && (*after == run.bounds[i - 1].0 || *after == run.bounds[i - 1].1)
                        {
                            st.clamped += 1;
                        }
                        // size of the move relative to the configured maximum, in millionths
                        let rel = {
                            let k = i - 1;
                            let maxd = if k < run.bounds.len() {
                                run.req.max_step * 0.5 * (run.bounds[k].1 - run.bounds[k].0)
                            } else {
                                0.
                            };
                            let moved = if k < vec.len() && k < base.len() { (vec[k] - base[k]).abs() } else { 0. };
                            // the stored value is the rounding of (held + move): the difference of
                            // the two stored numbers may exceed the move by an ulp of the larger one
                            // (matters only for maximum steps near machine precision)
                            let moved = if moved > 0. && k < vec.len() && k < base.len() {
                                let big = f64::max(vec[k].abs(), base[k].abs());
                                f64::max(moved - (crate::states::next_up(big) - big), f64::MIN_POSITIVE)
                            } else {
                                moved
                            };
                            if moved == 0. {
                                0
                            } else if maxd > 0. && run.check_range {
                                let r = (moved / maxd * 1e6).round();
                                if r > 2e9 { 2_000_000_000 } else { r as i64 }
                            } else if run.check_range {
                                2_000_000_000
                            } else {
                                0
                            }
                        };
                        lines.push(
                            json!({"ev": "propose", "i": i, "before": p.tok(*before),
                                   "val": p.toks(vec), "rel": rel, "out": outside(vec, &run.bounds)})
                            .to_string(),
                        );
                    }
                    Event::Draw { u } => {
                        have_draw = true;
                        // acceptance probability of the Metropolis rule from the observed scores
                        // and the temperature in force
                        let (metro, pn) = match new_score {
                            Some(ns) if ns.is_finite() && held.is_finite() => {
                                let pr = f64::min(f64::exp((ns - held) / kt_now), 1.);
                                if pr.is_nan() {
                                    // 0/0: equal scores at zero temperature; decided by Better
                                    ("unsure", 0.)
                                } else if *u < pr * (1. - 1e-9) - 1e-300 {
                                    ("yes", pr)
                                } else if *u >= pr * (1. + 1e-9) + 1e-300 {
                                    ("no", pr)
                                } else {
                                    ("unsure", pr)
                                }
                            }
                            _ => ("unsure", 0.),
                        };
                        match metro {
                            "yes" => st.metro_yes += 1,
                            "no" => st.metro_no += 1,
                            _ => st.metro_unsure += 1,
                        }
                        lines.push(
                            json!({"ev": "draw", "metro": metro, "u": (u * 1e9) as i64,
                                   "p": (pn * 1e9) as i64})
                            .to_string(),
                        );
                    }
                    Event::Decide {
                        score_current,
                        loop_rejections,
                        kt,
                        ..
                    } => {
                        // A proposal that was clamped back onto the very same vector may be
                        // decided without a call of score(): the state is the held state, its
                        // score (a function of the state) is the held score.
                        if !have_eval
                            && in_flight
                            && prop_vec.len() == base.len()
                            && prop_vec.iter().zip(base.iter()).all(|(a, b)| a.to_bits() == b.to_bits())
                            && held.is_finite()
                        {
                            new_score = Some(held);
                            have_eval = true;
                            lines.push(
                                json!({"ev": "eval", "val": p.toks(&prop_vec), "score": p.rank(Some(held)),
                                       "out": outside(&prop_vec, &run.bounds), "fresh": true})
                                .to_string(),
                            );
                        }
                        if !have_draw {
                            lines.push(
                                json!({"ev": "draw", "metro": "unsure", "u": 0, "p": 0})
                                    .to_string(),
                            );
                        }
                        if *loop_rejections == last_rej {
                            st.accepts += 1;
                            if let Some(ns) = new_score {
                                held = ns;
                            }
                        } else {
                            st.rejects += 1;
                        }
                        last_rej = *loop_rejections;
                        cur = *score_current;
                        kt_now = *kt;
                        in_flight = false;
                        base = vec.clone();
                        lines.push(
                            json!({"ev": "decide", "val": p.toks(vec),
                                   "cur": p.rank(Some(*score_current)),
                                   "rej": loop_rejections, "kt": kt_json(*kt), "out": outside(vec, &run.bounds)})
                            .to_string(),
                        );
                    }
                    Event::EndLoop {
                        kt,
                        step_ratio,
                        convergence_count,
                        early,
                        ..
                    } => {
                        let small = match run.req.convergence {
                            Some(prec) => cur - lstart < prec,
                            None => false,
                        };
                        lstart = cur;
                        last_rej = 0;
                        kt_now = *kt;
                        if *early {
                            st.early += 1;
                        }
                        lines.push(
                            json!({"ev": "endloop", "kt": kt_json(*kt), "cap": fx(*step_ratio),
                                   "conv": convergence_count, "early": early, "small": small})
                            .to_string(),
                        );
                    }
                    Event::Return { .. } => {
                        returned = true;
                    }
                },
            }
        }
        let _ = seen_start_hook;
        if let Some(msg) = &run.panicked {
            st.panics += 1;
            lines.push(json!({"ev": "panic", "msg": msg}).to_string());
        }
    }
    st.events = lines.len();
    let header = json!({"ev": "header", "maxRank": p.max_rank(), "runs": runs.len()}).to_string();
    lines.insert(0, header);
    (lines, p.tok_fx.clone(), st)
}
