//! Drivers: which optimiser runs are recorded.  Everything random is drawn from one seeded
//! generator (VERIF_SEED) so a run of the suite is reproducible.

use std::f64::consts::PI;

use packing::traits::State;
use packing::wallpaper::{get_wallpaper_group, WallpaperGroups};
use packing::{LJShape2, LineShape, MolecularShape2, PackedState, PotentialState};
use rand::prelude::*;
use rand_pcg::Pcg64Mcg;

use crate::optrace::{run_real, run_real_fresh, run_scripted, Req, Run};
use crate::states::{family_of, Brain, Script, Scripted};

pub const GROUPS: [&str; 7] = ["p1", "p2", "p1m1", "p1g1", "p2mm", "p2mg", "p2gg"];

/// The seven supported groups by name; "hex1" / "tet1" are user-defined one-copy groups with a
/// hexagonal / tetragonal cell (library API), used to exercise the two families no built-in group has.
pub fn group(name: &str) -> packing::WallpaperGroup<'static> {
    match name {
        "hex1" => packing::WallpaperGroup { name: "hex1", family: packing::CrystalFamily::Hexagonal, wyckoff_str: vec!["x,y"] },
        "tet1" => packing::WallpaperGroup { name: "tet1", family: packing::CrystalFamily::Tetragonal, wyckoff_str: vec!["x,y", "-x,-y"] },
        // user-built groups of spec/Wallpaper.tla (UserOps): operations in another order, centred
        // cells, a four-fold axis
        "p2r" => packing::WallpaperGroup { name: "p2r", family: packing::CrystalFamily::Monoclinic, wyckoff_str: vec!["-x,-y", "x,y"] },
        "p2mgr" => packing::WallpaperGroup {
            name: "p2mgr",
            family: packing::CrystalFamily::Orthorhombic,
            wyckoff_str: vec!["-x+1/2,y", "x+1/2,-y", "-x,-y", "x,y"],
        },
        "c1m1" => packing::WallpaperGroup {
            name: "c1m1",
            family: packing::CrystalFamily::Orthorhombic,
            wyckoff_str: vec!["x,y", "-x,y", "x+1/2,y+1/2", "-x+1/2,y+1/2"],
        },
        "c2mm" => packing::WallpaperGroup {
            name: "c2mm",
            family: packing::CrystalFamily::Orthorhombic,
            wyckoff_str: vec!["x,y", "-x,-y", "-x,y", "x,-y", "x+1/2,y+1/2", "-x+1/2,-y+1/2", "-x+1/2,y+1/2", "x+1/2,-y+1/2"],
        },
        // the operations of p2mg declared on an oblique cell (the fixture of the library's own unit
        // tests): away from 90 degrees they are not motions of the cell, the structure is still a
        // crystal with four molecules per cell and a lattice energy
        "p2mgM" => packing::WallpaperGroup {
            name: "p2mg",
            family: packing::CrystalFamily::Monoclinic,
            wyckoff_str: vec!["x,y", "-x,-y", "-x+1/2,y", "x+1/2,-y"],
        },
        "p4" => packing::WallpaperGroup { name: "p4", family: packing::CrystalFamily::Tetragonal, wyckoff_str: vec!["x,y", "-x,-y", "-y,x", "y,-x"] },
        _ => {
            let g: WallpaperGroups = name.parse().expect("group name");
            get_wallpaper_group(g).expect("group")
        }
    }
}

fn pick<T: Clone>(rng: &mut Pcg64Mcg, xs: &[T]) -> T {
    xs[rng.gen_range(0, xs.len())].clone()
}

pub fn random_req(rng: &mut Pcg64Mcg, max_steps: u64) -> Req {
    let steps = *[0u64, 1, 2, 3, 7, 10, 12, 30, 60, 100, 101, 250, 400]
        .iter()
        .filter(|s| **s <= max_steps)
        .collect::<Vec<_>>()
        .choose(rng)
        .unwrap()
        .clone();
    let inner = pick(rng, &[0u64, 1, 2, 3, 5, 7, 10, 33, 50, 1000]);
    let kt_start = pick(rng, &[0., 0., 1e-3, 0.05, 0.5, 1e-12]);
    let (kt_finish, kt_ratio) = match rng.gen_range(0, 10) {
        0 => (None, None),
        1 => (Some(0.), None),
        2 => (Some(1e-4), None),
        3 => (Some(0.01), None),
        4 => (Some(1.0), None),
        5 => (None, Some(0.)),
        6 => (None, Some(0.1)),
        7 => (None, Some(0.5)),
        8 => (None, Some(1.0)),
        _ => (Some(0.001), Some(0.25)),
    };
    // a ratio above one is a legal (if odd) setting: with a zero start the temperature must stay
    // zero whatever the ratio (with a positive start the property fixes the factor 1 - ratio,
    // which is then negative: not generated)
    let (kt_finish, kt_ratio) = if kt_start == 0. && rng.gen_range(0, 6) == 0 {
        (None, Some(pick(rng, &[1.5, 3.0])))
    } else {
        (kt_finish, kt_ratio)
    };
    // a negative ratio (a factor above one) leaves a zero temperature at zero however many loops
    let (kt_finish, kt_ratio) = if kt_start == 0. && rng.gen_range(0, 8) == 0 {
        (kt_finish, Some(pick(rng, &[-1., -9., -99.])))
    } else {
        (kt_finish, kt_ratio)
    };
    // an infinite temperature (every defined proposal is accepted, an undefined one never), kept
    // infinite by a ratio of zero
    let (kt_start, kt_finish, kt_ratio) = if rng.gen_range(0, 25) == 0 {
        (std::f64::INFINITY, None, Some(0.))
    } else {
        (kt_start, kt_finish, kt_ratio)
    };
    let max_step = pick(rng, &[2e-6, 2e-5, 0.001, 0.01, 0.05, 0.5, 1.0, 1.5, 1.9, 3.0, 5.0, 2e-7]);
    let convergence = pick(rng, &[None, None, Some(0.), Some(1e-3), Some(0.5), Some(10.), Some(-1.), Some(1e-18), Some(1e-300)]);
    Req {
        steps,
        inner,
        kt_start,
        kt_finish,
        kt_ratio,
        max_step,
        convergence,
        seed: rng.gen_range(0, 1000),
    }
}

fn random_script(rng: &mut Pcg64Mcg, len: usize) -> (String, char) {
    // a weighting of the directives, then a string drawn from it
    let alphabets: [&str; 8] = [
        "BbEwvWU",
        "BBBBW",
        "WWWWWB",
        "EEEEw",
        "wwwwb",
        "UUUB",
        "BWBWBW",
        "bvbvEE",
    ];
    let alpha: Vec<char> = pick(rng, &alphabets).chars().collect();
    let s: String = (0..len).map(|_| pick(rng, &alpha)).collect();
    let tail = pick(rng, &['W', 'B', 'E', 'w', 'U']);
    (s, tail)
}

/// per-loop rejection patterns: each loop is all-accept, all-reject or mixed
fn loop_pattern_script(rng: &mut Pcg64Mcg, loops: u64, inner: u64) -> String {
    let mut s = String::new();
    for _ in 0..loops {
        match rng.gen_range(0, 4) {
            0 => s.extend(std::iter::repeat('B').take(inner as usize)),
            1 => s.extend(std::iter::repeat('W').take(inner as usize)),
            2 => s.extend(std::iter::repeat('U').take(inner as usize)),
            _ => {
                for _ in 0..inner {
                    s.push(if rng.gen::<bool>() { 'B' } else { 'W' });
                }
            }
        }
    }
    s
}

fn random_cells(rng: &mut Pcg64Mcg) -> (Vec<f64>, Vec<(f64, f64)>) {
    let n = pick(rng, &[1usize, 2, 3, 6]);
    let mut vals = vec![];
    let mut bounds = vec![];
    for _ in 0..n {
        let b = pick(
            rng,
            &[(0., 1.), (-0.5, 0.5), (0.01, 7.3), (0., 2. * PI), (0.1, 1.), (PI / 6., PI / 2.)],
        );
        let v = match rng.gen_range(0, 8) {
            0 => b.0,
            1 => b.1,
            2 => b.0 + (b.1 - b.0) * 1e-3,
            3 => b.1 - (b.1 - b.0) * 1e-3,
            // a hair inside a limit (closer than any tolerance a clamp might use)
            4 => b.0 + (b.1 - b.0) * 1.5e-6,
            5 => b.1 - (b.1 - b.0) * 1.5e-6,
            _ => b.0 + (b.1 - b.0) * rng.gen::<f64>(),
        };
        vals.push(v);
        bounds.push(b);
    }
    (vals, bounds)
}

fn landscape(kind: usize) -> Box<dyn Fn(&[f64]) -> Option<f64> + Send> {
    match kind {
        // smooth concave
        0 => Box::new(|v: &[f64]| Some(-v.iter().map(|x| (x - 0.3) * (x - 0.3)).sum::<f64>())),
        // plateaus: many equal scores (convergence counting)
        1 => Box::new(|v: &[f64]| Some((v.iter().sum::<f64>() * 4.).floor())),
        // rugged with invalid regions
        2 => Box::new(|v: &[f64]| {
            let s: f64 = v.iter().enumerate().map(|(i, x)| ((i + 1) as f64 * 7. * x).sin()).sum();
            if (s * 3.).sin() > 0.6 {
                None
            } else {
                Some(s)
            }
        }),
        // nearly flat: differences at the level of a few ulps
        3 => Box::new(|v: &[f64]| Some(1. + 1e-16 * v.iter().sum::<f64>())),
        // linear, pushes parameters into their bounds
        _ => Box::new(|v: &[f64]| Some(v.iter().sum::<f64>())),
    }
}

pub fn scripted_suite(rng: &mut Pcg64Mcg, count: usize, max_steps: u64) -> Vec<Run> {
    let mut runs = vec![];
    for k in 0..count {
        let mut req = random_req(rng, max_steps);
        let (vals, bounds) = random_cells(rng);
        let mut kind = rng.gen_range(0, 10);
        // a zero temperature under a "heating" ratio, over hundreds of loops: it stays zero
        let heating = k % 20 == 3;
        if heating {
            req.kt_start = 0.;
            req.kt_ratio = Some([-9., -99., -1.][(k / 20) % 3]);
            req.steps = max_steps;
            req.inner = [1, 2, 0][(k / 20) % 3];
            req.convergence = None;
            kind = 0;
        }
        // the step size driven to its floor by a run of rejected one-step loops while the
        // temperature goes on cooling: later decisions belong to the temperature of their own loop
        let stale = k % 20 == 9;
        if stale {
            kind = 0;
            req.kt_start = 1.6e-5;
            req.kt_finish = None;
            req.kt_ratio = Some(0.5);
            req.inner = 1;
            req.steps = 61;
            req.convergence = None;
        }
        // one long run that is rejected ten thousand times in a row after a few accepted moves
        let long = k == 21;
        if long {
            kind = 0;
            req.kt_start = 0.;
            req.steps = 12_000;
            req.inner = 100;
            req.convergence = None;
        }
        // moves of an ulp or two (step sizes near machine precision), every one rejected after a few
        // accepted ones: the undo is exact however small the move was
        let ulp = k % 20 == 7;
        if ulp {
            kind = 0;
            req.kt_start = 0.;
            req.max_step = [1e-15, 4e-16, 3e-15][(k / 20) % 3];
            req.steps = u64::min(max_steps, 300);
            req.inner = 50;
            req.convergence = None;
        }
        let climb = k % 20 == 17;
        if climb {
            kind = 9;
            req.kt_start = 0.;
            req.max_step = [1.5, 0.5, 3.0][(k / 20) % 3];
            req.steps = 100;
            req.inner = 10;
            req.convergence = None;
        }
        // a temperature far below one ulp of a score of order one, offers one ulp worse on scores
        // of order 1e-3 (d/kT of a few hundredths: nearly always accepted)
        let cold = k % 20 == 13;
        if cold {
            kind = 0;
            req.kt_finish = None;
            req.kt_ratio = Some(0.);
            req.convergence = None;
            req.steps = 62;
        }
        let (desc, brain) = if kind < 5 {
            let (s, tail) = random_script(rng, req.steps as usize);
            let (s, tail) = if long {
                ("BBBBBwB".to_string(), 'W')
            } else if ulp {
                ("BBWWBWWW".to_string(), 'W')
            } else if stale {
                // (length 61 selects the score scale 1: 'v' is worse by 1e-10)
                ("U".repeat(17) + &"vB".repeat(22), 'v')
            } else if cold {
                // length 62 selects the score scale 1e-3 (Script::new: directives.len() % 3 == 2)
                ((0..62).map(|i| if i % 4 == 0 { 'b' } else { 'w' }).collect::<String>(), 'w')
            } else {
                (s, tail)
            };
            let (s, tail) = if heating {
                ((0..req.steps as usize).map(|i| if i % 7 == 0 { 'B' } else if i % 7 == 3 { 'w' } else { 'W' }).collect::<String>(), 'W')
            } else {
                (s, tail)
            };
            // scripted runs use a temperature that makes 'W' surely rejected and 'w','v' surely
            // accepted when positive
            if req.kt_start > 0. {
                req.kt_start = 1e-3;
            }
            // now and then an infinite temperature: every defined proposal is accepted, the
            // undefined ones ('U') still never
            if cold {
                req.kt_start = 1e-17;
            }
            if stale {
                req.kt_start = 1.6e-5;
            }
            if k % 12 == 5 {
                req.kt_start = std::f64::INFINITY;
                req.kt_finish = None;
                req.kt_ratio = Some(0.);
            }

            (
                format!("scripted script={}.. tail={}", &s[..s.len().min(24)], tail),
                Brain::Script(Script::new(&s, tail, vals.len())),
            )
        } else if kind < 7 {
            let s = loop_pattern_script(rng, req.loops(), req.inner_eff());
            if req.kt_start > 0. {
                req.kt_start = 1e-3;
            }
            (
                format!("scripted loop-pattern len={}", s.len()),
                Brain::Script(Script::new(&s, 'W', vals.len())),
            )
        } else {
            let mut l = rng.gen_range(0, 5);
            // a climb into the limits with steps as large as the ranges: accepted moves onto a
            // limit, then proposals clamped back onto it
            if climb {
                l = 4;
            }
            (format!("scripted landscape={}", l), Brain::Landscape(landscape(l)))
        };
        let state = Scripted::new(&vals, &bounds, brain);
        // a landscape may be invalid at the start: that is an invalid input, skip it
        if let Brain::Landscape(f) = &*state.inner.brain.lock().unwrap() {
            if f(&vals).is_none() {
                continue;
            }
        }
        let desc = format!("#{} {} | {}", k, desc, req.describe());
        runs.push(run_scripted(&desc, &req, state));
    }
    runs
}

/// pairs (reference run without threshold, run with threshold) for the prefix clause of C20
pub fn prefix_pairs(rng: &mut Pcg64Mcg, count: usize) -> Vec<Run> {
    let mut runs = vec![];
    for k in 0..count {
        let mut req = random_req(rng, 250);
        req.steps = pick(rng, &[40u64, 60, 100, 101, 250]);
        req.inner = pick(rng, &[1u64, 2, 3, 5, 7, 10]);
        let thr = pick(rng, &[0., 1e-3, 0.5, 2., 10.]);
        let (vals, bounds) = random_cells(rng);
        let l = pick(rng, &[0usize, 1, 1, 3, 4]);
        let mk = |vals: &[f64], bounds: &[(f64, f64)]| {
            Scripted::new(vals, bounds, Brain::Landscape(landscape(l)))
        };
        let mut reference = req.clone();
        reference.convergence = None;
        let mut with = req.clone();
        with.convergence = Some(thr);
        let mut a = run_scripted(
            &format!("#{} prefix-reference landscape={} | {}", k, l, reference.describe()),
            &reference,
            mk(&vals, &bounds),
        );
        a.keep_hist = true;
        let mut b = run_scripted(
            &format!("#{} prefix-with-threshold landscape={} | {}", k, l, with.describe()),
            &with,
            mk(&vals, &bounds),
        );
        b.prefix_ref = true;
        runs.push(a);
        runs.push(b);
    }
    // the same on real states (the score differences that feed the convergence test are those of
    // real packings and energies)
    for k in 0..(count / 4).max(2) {
        let gname = GROUPS[k % GROUPS.len()];
        let g = group(gname);
        let mut req = random_req(rng, 250);
        req.steps = pick(rng, &[60u64, 120, 250]);
        req.inner = pick(rng, &[3u64, 5, 10]);
        req.max_step = pick(rng, &[0.01, 0.05]);
        if req.kt_start > 0.01 {
            req.kt_start = 0.01;
        }
        let thr = pick(rng, &[0., 1e-6, 1e-3, 0.1]);
        let mut reference = req.clone();
        reference.convergence = None;
        let mut with = req.clone();
        with.convergence = Some(thr);
        let fam = family_of(gname);
        let mut push_pair = |a: (Run, bool), b: Run, runs: &mut Vec<Run>| {
            let (mut a, ok) = a;
            if !ok {
                return;
            }
            a.keep_hist = true;
            let mut b = b;
            b.prefix_ref = true;
            runs.push(a);
            runs.push(b);
        };
        if k % 2 == 0 {
            if let (Ok(s1), Ok(s2)) = (PackedState::from_group(LineShape::polygon(4 + k % 3).unwrap(), &g),
                                       PackedState::from_group(LineShape::polygon(4 + k % 3).unwrap(), &g)) {
                let (ra, _) = run_real(&format!("#{} real prefix-reference {} | {}", k, gname, reference.describe()), &reference, s1, fam, false);
                let ok = ra.panicked.is_none();
                let (rb, _) = run_real(&format!("#{} real prefix-with-threshold {} | {}", k, gname, with.describe()), &with, s2, fam, false);
                push_pair((ra, ok), rb, &mut runs);
            }
        } else if let (Ok(s1), Ok(s2)) = (PotentialState::from_group(LJShape2::from_trimer(0.637556, 120., 1.), &g),
                                          PotentialState::from_group(LJShape2::from_trimer(0.637556, 120., 1.), &g)) {
            let (ra, _) = run_real(&format!("#{} real prefix-reference {} lj | {}", k, gname, reference.describe()), &reference, s1, fam, false);
            let ok = ra.panicked.is_none();
            let (rb, _) = run_real(&format!("#{} real prefix-with-threshold {} lj | {}", k, gname, with.describe()), &with, s2, fam, false);
            push_pair((ra, ok), rb, &mut runs);
        }
    }
    runs
}

#[derive(Clone, Debug)]
pub enum ShapeSpec {
    Polygon(usize),
    Radial(Vec<f64>),
    Circle,
    Trimer(f64, f64, f64),
}

impl ShapeSpec {
    pub fn describe(&self) -> String {
        format!("{:?}", self)
    }
}

pub fn hard_shapes() -> Vec<ShapeSpec> {
    vec![
        ShapeSpec::Polygon(4),
        ShapeSpec::Polygon(3),
        ShapeSpec::Polygon(6),
        ShapeSpec::Polygon(5),
        ShapeSpec::Radial(vec![1., 0.6, 1., 0.6]),
        ShapeSpec::Circle,
        ShapeSpec::Trimer(0.637556, 120., 1.),
        ShapeSpec::Trimer(0.2, 180., 3.),
        ShapeSpec::Trimer(0.7, 90., 1.2),
        // a central disc that reaches further than the outer ones; outer discs larger than the
        // central one; a shape without any mirror line; more sides
        ShapeSpec::Trimer(0.2, 120., 1.),
        ShapeSpec::Trimer(1.4, 180., 1.),
        ShapeSpec::Radial(vec![1., 0.5, 0.8, 0.3]),
        ShapeSpec::Polygon(7),
        ShapeSpec::Polygon(8),
    ]
}
pub fn lj_shapes() -> Vec<ShapeSpec> {
    vec![
        ShapeSpec::Circle,
        ShapeSpec::Trimer(0.637556, 120., 1.),
        ShapeSpec::Trimer(0.5, 180., 1.),
        ShapeSpec::Trimer(1.4, 100., 1.),
        ShapeSpec::Trimer(0.2, 120., 1.),
    ]
}

/// Run a chain of stages on a real state; `reqs[k]` is stage k.
pub fn chain<S: State + 'static>(desc: &str, gname: &str, state: S, reqs: &[Req], out: &mut Vec<Run>) {
    let fam = family_of(gname);
    let mut cur = Some(state);
    for (k, req) in reqs.iter().enumerate() {
        let s = match cur.take() {
            Some(s) => s,
            None => break,
        };
        let d = format!("{} stage={} | {}", desc, k + 1, req.describe());
        let (run, next) = run_real(&d, req, s, fam, k > 0);
        let bad = run.panicked.is_some();
        out.push(run);
        if bad {
            break;
        }
        cur = next;
    }
}

pub fn run_chain_for(
    desc: &str,
    gname: &str,
    hard: bool,
    shape: &ShapeSpec,
    reqs: &[Req],
    out: &mut Vec<Run>,
) {
    let g = group(gname);
    match (hard, shape) {
        (true, ShapeSpec::Polygon(n)) => {
            if let Ok(sh) = LineShape::polygon(*n) {
                if let Ok(st) = PackedState::from_group(sh, &g) {
                    chain(desc, gname, st, reqs, out)
                }
            }
        }
        (true, ShapeSpec::Radial(v)) => {
            if let Ok(sh) = LineShape::from_radial("radial", v.clone()) {
                if let Ok(st) = PackedState::from_group(sh, &g) {
                    chain(desc, gname, st, reqs, out)
                }
            }
        }
        (true, ShapeSpec::Circle) => {
            if let Ok(st) = PackedState::from_group(MolecularShape2::circle(), &g) {
                chain(desc, gname, st, reqs, out)
            }
        }
        (true, ShapeSpec::Trimer(r, a, d)) => {
            if let Ok(st) = PackedState::from_group(MolecularShape2::from_trimer(*r, *a, *d), &g) {
                chain(desc, gname, st, reqs, out)
            }
        }
        (false, ShapeSpec::Circle) => {
            if let Ok(st) = PotentialState::from_group(LJShape2::circle(), &g) {
                chain(desc, gname, st, reqs, out)
            }
        }
        (false, ShapeSpec::Trimer(r, a, d)) => {
            if let Ok(st) = PotentialState::from_group(LJShape2::from_trimer(*r, *a, *d), &g) {
                chain(desc, gname, st, reqs, out)
            }
        }
        _ => {}
    }
}

/// The CLI's own three-stage chain for a replica index.
pub fn cli_chain(user: &Req, index: u64) -> Vec<Req> {
    let mut s1 = user.clone();
    s1.steps = 1000;
    s1.kt_start = 0.;
    s1.seed = index;
    s1.convergence = None;
    let mut s2 = user.clone();
    s2.seed = index;
    let mut s3 = user.clone();
    s3.kt_start = 0.;
    s3.seed = index;
    vec![s1, s2, s3]
}

pub fn real_suite(rng: &mut Pcg64Mcg, count: usize, max_steps: u64) -> Vec<Run> {
    let mut runs = vec![];
    let hs = hard_shapes();
    let ls = lj_shapes();
    for k in 0..count {
        // cycle through groups so each appears, randomise the rest
        // the seven groups in turn, and now and then a user-defined hexagonal / tetragonal cell
        let gname = if k % 9 == 7 { "hex1" } else if k % 9 == 8 { "tet1" } else { GROUPS[k % GROUPS.len()] };
        let hard = rng.gen_range(0, 3) != 0;
        let shape = if hard { pick(rng, &hs) } else { pick(rng, &ls) };
        let stages = rng.gen_range(1, 5);
        let mut reqs = vec![];
        if rng.gen_range(0, 4) == 0 {
            // the CLI's chain with scaled-down step counts
            let mut user = random_req(rng, max_steps);
            user.kt_start = pick(rng, &[0.1, 0.05, 0.5]);
            // a ratio above one is only generated together with a zero start
            if user.kt_ratio.map(|r| r > 1.).unwrap_or(false) {
                user.kt_ratio = Some(0.5);
            }
            user.max_step = pick(rng, &[0.01, 0.05, 0.2]);
            let idx = rng.gen_range(0, 50);
            let mut c = cli_chain(&user, idx);
            c[0].steps = u64::min(max_steps, 300);
            reqs.extend(c);
        } else {
            for _ in 0..stages {
                let mut r = random_req(rng, max_steps);
                if r.max_step < 0.001 {
                    r.max_step = 0.01;
                }
                // real energies: keep temperatures in a sensible range
                if r.kt_start > 0. && hard {
                    r.kt_start = pick(rng, &[1e-3, 0.05, 0.5]);
                }
                // a random walk at infinite temperature through the valid packings
                if hard && k % 11 == 5 {
                    r.kt_start = std::f64::INFINITY;
                    r.kt_finish = None;
                    r.kt_ratio = Some(0.);
                    r.max_step = 0.2;
                }
                reqs.push(r);
            }
        }
        let desc = format!(
            "#{} real {} {} {}",
            k,
            gname,
            if hard { "hard" } else { "lj" },
            shape.describe()
        );
        run_chain_for(&desc, gname, hard, &shape, &reqs, &mut runs);
    }
    runs
}

/// States placed by editing their JSON form: special positions, bound-clamped coordinates and
/// coordinates outside the declared range (a legal description of a crystal).
pub fn edited_suite(rng: &mut Pcg64Mcg, count: usize, max_steps: u64, oor: bool) -> Vec<Run> {
    let mut runs = vec![];
    for k in 0..count {
        let gname = GROUPS[k % GROUPS.len()];
        let g = group(gname);
        let st = match PackedState::from_group(LineShape::polygon(4).unwrap(), &g) {
            Ok(s) => s,
            Err(_) => continue,
        };
        let mut j = serde_json::to_value(&st).unwrap();
        let site = &mut j["occupied_sites"][0];
        match if oor { 0 } else { rng.gen_range(1, 4) } {
            0 => match rng.gen_range(0, 3) {
                0 => site["x"] = serde_json::json!(0.75),
                1 => site["y"] = serde_json::json!(-0.8),
                _ => site["angle"] = serde_json::json!(7.0),
            },
            1 => site["y"] = serde_json::json!(-0.5),
            2 => {
                site["x"] = serde_json::json!(0.5);
                site["angle"] = serde_json::json!(0.)
            }
            _ => site["angle"] = serde_json::json!(2. * PI),
        }
        // a Wyckoff site that declares rotations of its own (plain data a user may set; the
        // orientation keeps its range and its maximum move)
        if !oor && k % 3 == 0 {
            site["wyckoff"]["num_rotations"] = serde_json::json!(2 + (k % 2) as u64 * 2);
        }
        let st2: PackedState<LineShape> = match serde_json::from_value(j) {
            Ok(s) => s,
            Err(_) => continue,
        };
        if st2.score().is_none() {
            continue;
        }
        let mut req = random_req(rng, max_steps);
        if req.max_step < 0.001 {
            req.max_step = 0.05;
        }
        let desc = format!(
            "#{} {} {} square",
            k,
            if oor { "out-of-range-start" } else { "edited" },
            gname
        );
        chain(&desc, gname, st2, &[req], &mut runs);
    }
    runs
}

/// Out-of-range descriptions of relaxed Lennard-Jones crystals: a site coordinate shifted by a
/// whole lattice vector (the same crystal, the same score) or an orientation beyond 2 pi.  The
/// score depends on every parameter, so a move that is not undone shows in the score.
pub fn oor_lj_suite(rng: &mut Pcg64Mcg, count: usize) -> Vec<Run> {
    let mut runs = vec![];
    for k in 0..count {
        let gname = GROUPS[k % GROUPS.len()];
        let g = group(gname);
        let st = match PotentialState::from_group(LJShape2::from_trimer(0.637556, 120., 1.), &g) {
            Ok(s) => s,
            Err(_) => continue,
        };
        // relax first (not recorded), so that most proposals of the recorded stage are rejected
        let mut b = packing::BuildOptimiser::default();
        b.seed(k as u64).steps(600).inner_steps(200).kt_start(0.).max_step_size(0.05);
        let relaxed = b.build().optimise_state(st);
        let mut j = match serde_json::to_value(&relaxed) {
            Ok(j) => j,
            Err(_) => continue,
        };
        let site = &mut j["occupied_sites"][0];
        match rng.gen_range(0, 3) {
            0 => site["x"] = serde_json::json!(site["x"].as_f64().unwrap() + 1.),
            1 => site["y"] = serde_json::json!(site["y"].as_f64().unwrap() - 1.),
            _ => site["angle"] = serde_json::json!(site["angle"].as_f64().unwrap() + 2. * PI),
        }
        let st2: PotentialState<LJShape2> = match serde_json::from_value(j) {
            Ok(s) => s,
            Err(_) => continue,
        };
        if st2.score().is_none() {
            continue;
        }
        let mut req = random_req(rng, 100);
        req.steps = pick(rng, &[30u64, 60, 100]);
        req.kt_start = pick(rng, &[0., 0., 0.05]);
        req.max_step = pick(rng, &[0.01, 0.05]);
        let desc = format!("#{} out-of-range-start {} relaxed lj trimer", k, gname);
        chain(&desc, gname, st2, &[req], &mut runs);
    }
    runs
}

/// Lennard-Jones states one clamped move away from a special position on which two copies
/// coincide (the pair energy is not finite there).
pub fn special_suite(rng: &mut Pcg64Mcg, count: usize) -> Vec<Run> {
    let mut runs = vec![];
    for k in 0..count {
        let gname = ["p2", "p2mm", "p1m1", "p2mg", "p2gg"][k % 5];
        let g = group(gname);
        let st = match PotentialState::from_group(LJShape2::circle(), &g) {
            Ok(s) => s,
            Err(_) => continue,
        };
        let mut j = serde_json::to_value(&st).unwrap();
        let site = &mut j["occupied_sites"][0];
        site["x"] = serde_json::json!(pick(rng, &[0.49, -0.49, 0.5, 0.3]));
        site["y"] = serde_json::json!(pick(rng, &[0.5, -0.5, 0.47]));
        j["cell"]["length"] = serde_json::json!(pick(rng, &[3.0, 4.0, 6.0]));
        // now and then the side ratio exactly on its lower limit: the handle of the next stage
        // has a range of zero width
        if k % 3 == 1 {
            j["cell"]["ratio"] = serde_json::json!(0.1);
            j["cell"]["length"] = serde_json::json!(12.0);
        }
        let st2: PotentialState<LJShape2> = match serde_json::from_value(j) {
            Ok(s) => s,
            Err(_) => continue,
        };
        match st2.score() {
            Some(s) if s.is_finite() => {}
            _ => continue,
        }
        let mut req = random_req(rng, 250);
        req.steps = pick(rng, &[60u64, 100, 250]);
        req.max_step = pick(rng, &[0.5, 1.0]);
        req.kt_start = pick(rng, &[0., 0.5, 5.]);
        let desc = format!("#{} special-position {} lj circle", k, gname);
        chain(&desc, gname, st2, &[req], &mut runs);
    }
    runs
}

/// Shapes so small that the initial cell is shorter than the lower limit of the cell length
/// (0.01): valid states whose length handle has its limits the wrong way round.  Used for the
/// termination clauses only (the state starts outside that handle's range, like the `oor` runs).
pub fn tiny_suite(rng: &mut Pcg64Mcg, count: usize) -> Vec<Run> {
    let mut runs = vec![];
    for k in 0..count {
        let gname = ["p1", "p2", "p2mm", "p4", "p2gg"][k % 5];
        let g = group(gname);
        let shape = match k % 3 {
            0 => LineShape::from_radial("small", vec![0.001; 4]),
            1 => LineShape::from_radial("small", vec![0.002, 0.001, 0.002, 0.001]),
            _ => LineShape::from_radial("small", vec![0.0005; 3]),
        };
        let st = match shape.ok().and_then(|sh| PackedState::from_group(sh, &g).ok()) {
            Some(s) => s,
            None => continue,
        };
        if st.score().is_none() {
            continue;
        }
        let stages = 1 + k % 2;
        let reqs: Vec<Req> = (0..stages)
            .map(|_| {
                let mut r = random_req(rng, 100);
                if r.max_step < 0.001 {
                    r.max_step = 0.05;
                }
                if r.kt_start > 1. {
                    r.kt_start = 0.5;
                }
                r
            })
            .collect();
        chain(&format!("#{} tiny shape {}", k, gname), gname, st, &reqs, &mut runs);
    }
    runs
}

pub fn seeded(seed: u64, stream: u64) -> Pcg64Mcg {
    Pcg64Mcg::seed_from_u64(seed.wrapping_mul(0x9E37_79B9_7F4A_7C15).wrapping_add(stream))
}

/// C11: an optimisation continued from a state that went through JSON is the same behaviour.
/// Per case three runs: stage 1; stage 2 from its result (reference, keeps its history);
/// stage 2 again from the result written to JSON and read back (must repeat the reference
/// evaluation by evaluation: `prefix_ref`).
fn saveload_case<S>(desc: &str, gname: &str, state: S, r1: &Req, r2: &Req, out: &mut Vec<Run>)
where
    S: State + serde::de::DeserializeOwned + 'static,
{
    let fam = family_of(gname);
    let (run1, s1) = run_real(&format!("{} stage=1 | {}", desc, r1.describe()), r1, state, fam, false);
    let bad = run1.panicked.is_some();
    out.push(run1);
    let s1 = match s1 {
        Some(s) if !bad => s,
        _ => return,
    };
    let text = match serde_json::to_string(&s1) {
        Ok(t) => t,
        Err(_) => return,
    };
    let reread: S = match serde_json::from_str(&text) {
        Ok(s) => s,
        Err(_) => return,
    };
    // the reference continues with the state object that has the history of stage 1 behind it;
    // each of its scores is also compared with the score of a fresh copy of the state
    let (mut a, _) = run_real_fresh(&format!("{} stage=2 reference | {}", desc, r2.describe()), r2, s1, fam, true);
    a.keep_hist = true;
    out.push(a);
    let (mut b, _) = run_real(
        &format!("{} stage=2 after JSON save/load | {}", desc, r2.describe()),
        r2,
        reread,
        fam,
        false,
    );
    b.prefix_ref = true;
    b.same_length = true;
    out.push(b);
}

pub fn saveload_suite(rng: &mut Pcg64Mcg, count: usize) -> Vec<Run> {
    let mut runs = vec![];
    for k in 0..count {
        let gname = GROUPS[k % GROUPS.len()];
        let g = group(gname);
        let mut r1 = random_req(rng, 250);
        r1.steps = pick(rng, &[60u64, 100, 250]);
        r1.inner = pick(rng, &[10u64, 50]);
        r1.kt_start = pick(rng, &[0.05, 0.5]);
        r1.max_step = pick(rng, &[0.01, 0.05, 0.3]);
        r1.convergence = None;
        let mut r2 = r1.clone();
        r2.steps = pick(rng, &[30u64, 60]);
        r2.seed = rng.gen_range(0, 1000);
        let desc = format!("#{} saveload {}", k, gname);
        match k % 4 {
            0 => {
                if let Ok(st) = PackedState::from_group(LineShape::polygon(3 + k % 4).unwrap(), &g) {
                    saveload_case(&desc, gname, st, &r1, &r2, &mut runs)
                }
            }
            1 => {
                if let Ok(st) = PackedState::from_group(MolecularShape2::from_trimer(0.637556, 120., 1.), &g) {
                    saveload_case(&desc, gname, st, &r1, &r2, &mut runs)
                }
            }
            2 => {
                if let Ok(st) = PotentialState::from_group(LJShape2::from_trimer(0.637556, 120., 1.), &g) {
                    saveload_case(&desc, gname, st, &r1, &r2, &mut runs)
                }
            }
            _ => {
                if let Ok(st) = PotentialState::from_group(LJShape2::circle(), &g) {
                    saveload_case(&desc, gname, st, &r1, &r2, &mut runs)
                }
            }
        }
    }
    runs
}
