#!/usr/bin/env python3
"""MANIFEST.setup_cmd: build the conformance harness from files on disk and parse all specs."""
import os, subprocess, sys
sys.path.insert(0, os.path.dirname(os.path.abspath(__file__)))
import vp
vp.build_harness()
bad = 0
for f in sorted(os.listdir(vp.SPEC)):
    if f.endswith(".tla"):
        r = subprocess.run(["java", "-cp", vp.JAR, "tla2sany.SANY", f], cwd=vp.SPEC,
                           stdout=subprocess.PIPE, stderr=subprocess.STDOUT, text=True)
        if r.returncode != 0 or "*** Errors" in r.stdout or "Fatal" in r.stdout:
            print(r.stdout[-2000:])
            bad += 1
print("setup ok" if not bad else "setup: %d modules do not parse" % bad)
sys.exit(1 if bad else 0)
