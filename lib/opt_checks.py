"""Checks for the optimiser state machine: C05 C06 C07 C08 C18 C19 C20.

Each check (1) model-checks spec/Optimiser.tla for small constants with TLC (the design admits
no bad state), (2) records executions of the real optimiser (scripted landscapes, real hard and
LJ states, chains of stages) through the conformance harness and (3) has TLC judge every
recorded step against the property's formulas in spec/OptimiserTrace.tla."""
import json
import os
import time

import vp

FORMULAS = {
    "C05": {"inv": ["C05Result"], "props": ["C05"], "mc_props": ["C05"], "mc_inv": ["C05Result"]},
    "C06": {"inv": ["C06Done"], "props": ["C06"], "mc_props": ["C06"], "mc_inv": ["C06Done"]},
    "C07": {"inv": [], "props": ["C07"], "mc_props": ["C07"], "mc_inv": []},
    # C08 promises a returned state: a panic from a valid input is a violation of it as well
    "C08": {"inv": ["C08Range", "C08Exact", "C08Done", "C20NoPanic"], "props": ["C08", "C08Held"], "mc_props": ["C08", "C08Held"],
            "mc_inv": ["C08Range", "C08Done", "C20NoPanic"]},
    "C18": {"inv": ["C18Finish"], "props": ["C18", "C18Zero", "C18Governs"], "mc_props": ["C18", "C18Zero", "C18Governs"], "mc_inv": ["C18Finish"]},
    "C19": {"inv": ["C19Cap", "C19Rel"], "props": ["C19"], "mc_props": ["C19"], "mc_inv": ["C19Cap"]},
    "C20": {"inv": ["C20NoPanic", "C20Work"], "props": ["C20Conv", "C20Prefix"],
            "mc_props": ["C20Conv", "C20Terminates"], "mc_inv": ["C20NoPanic", "C20Work"]},
}

# suites whose runs start outside the declared ranges are only meaningful for C06
SUITES = {
    "C05": "scripted,real,edited,oor",
    "C06": "scripted,real,edited,oor",
    "C07": "scripted,real,special",
    "C08": "scripted,real,edited,special",
    "C18": "scripted,real",
    "C19": "scripted,real,edited",
    "C20": "scripted,pairs,real,special,tiny",
}

TITLE = {
    "C05": "zero-temperature optimisation never lowers the score",
    "C06": "a rejected move leaves no trace; the result is the last accepted state",
    "C07": "Metropolis acceptance",
    "C08": "parameters stay in range, cell stays in its family, chains never widen",
    "C18": "temperature follows the requested schedule",
    "C19": "no move larger than the configured maximum",
    "C20": "termination and amount of work",
}


def mc_cfg(pid, tier):
    f = FORMULAS[pid]
    steps = "{0, 1, 3, 4}" if tier == "thorough" else "{0, 1, 3}"
    inner = "{0, 1, 2, 5}" if tier == "thorough" else "{0, 1, 2}"
    lines = ["SPECIFICATION Spec", "CONSTANTS", '  Variant = "spec"', "  ConvLimit = 1",
             "  StepsSet = " + steps, "  InnerSet = " + inner,
             "INVARIANTS TypeOK " + " ".join(f["mc_inv"]),
             "PROPERTIES WitnessForm " + " ".join(f["mc_props"]),
             "VIEW View", "CHECK_DEADLOCK FALSE"]
    return "\n".join(lines) + "\n"


def trace_cfg(pid, conform=False):
    f = FORMULAS[pid]
    lines = ["SPECIFICATION Spec"]
    if conform:
        lines += ["PROPERTIES Conform"]
    else:
        if f["inv"]:
            lines += ["INVARIANTS " + " ".join(f["inv"])]
        if f["props"]:
            lines += ["PROPERTIES " + " ".join(f["props"])]
    lines += ["POSTCONDITION Accepted", "CHECK_DEADLOCK FALSE"]
    return "\n".join(lines) + "\n"


def relevance(pid, path):
    """Counts showing the recorded runs exercise the property (vacuity guard)."""
    c = {"runs": 0, "events": 0, "relevant": 0}
    cfg = None
    cur = None
    new = None
    for line in open(path):
        e = json.loads(line)
        ev = e["ev"]
        c["events"] += 1
        if ev == "start":
            cfg = e["cfg"]
            c["runs"] += 1
            if pid == "C08" and e.get("chained"):
                c["relevant"] += 1
            if pid == "C20" and (cfg["steps"] == 0 or cfg["innerReq"] == 0 or cfg["prefixRef"]
                                 or cfg["innerReq"] > cfg["steps"]
                                 or (cfg["innerReq"] and cfg["steps"] % cfg["innerReq"])):
                c["relevant"] += 1
            if pid == "C18" and cfg["sched"] == "finish" and cfg["ktStart"] == "pos":
                c["relevant"] += 1
        elif ev == "begin":
            cur = e["score"]
        elif ev == "eval":
            new = e["score"]
            if pid == "C05" and cfg["ktStart"] == "zero" and cur is not None and 0 <= new < cur:
                c["relevant"] += 1
            if pid == "C07":
                c["relevant"] += 1
        elif ev == "decide":
            if pid == "C06" and e["cur"] != new:
                c["relevant"] += 1          # a rejection: the reset path
            cur = e["cur"]
        elif ev == "propose":
            if pid in ("C19", "C08"):
                c["relevant"] += 1
        elif ev == "endloop":
            if pid == "C18" and e["kt"]["cls"] == "pos":
                c["relevant"] += 1
            if pid == "C20" and e["early"]:
                c["relevant"] += 1
    return c


def find_run(path, line_no):
    """(description, run lines) of the run containing 1-based log line `line_no`."""
    lines = open(path).read().splitlines()
    line_no = max(2, min(line_no, len(lines)))
    s = line_no
    while s > 2 and '"ev":"start"' not in lines[s - 1]:
        s -= 1
    e = s + 1
    while e <= len(lines) and '"ev":"start"' not in lines[e - 1]:
        e += 1
    run = lines[s - 1:e - 1]
    desc = json.loads(run[0]).get("desc", "?") if run else "?"
    return desc, run, lines[0], line_no - s


def validate_files(pid, files, tier, conform=False, tag=""):
    jobs = []
    for k, f in enumerate(files):
        def job(f=f, k=k):
            env = {"TRACE": f["file"], "TOKENS": f["tokens"]}
            return f, vp.run_tlc("OptimiserTrace", trace_cfg(pid, conform),
                                 "%s_tr%s_%d" % (pid, tag, k), env=env, workers=1,
                                 timeout=3000, xmx="3g")
        jobs.append(job)
    return vp.parallel(jobs, n=8)


def run_check(ctx):
    pid, tier, seed = ctx["pid"], ctx["tier"], ctx["seed"]
    t0 = ctx["t0"]
    if ctx.get("replay"):
        return replay(ctx)
    vp.build_harness()
    out = os.path.join(vp.WORK, pid + "_traces")
    os.makedirs(out, exist_ok=True)
    for fn in os.listdir(out):
        os.remove(os.path.join(out, fn))
    # (2) record executions of the real code
    vp.pvh(["opt", "--out", out, "--tier", tier, "--seed", str(seed), "--suites", SUITES[pid]])
    index = json.load(open(os.path.join(out, "index.json")))
    files = index["files"]
    # (1) bounded model, in parallel with (3)
    mc_job = [lambda: vp.run_tlc("MC_Optimiser", mc_cfg(pid, tier), pid + "_mc", workers=6,
                                 timeout=3000, xmx="8g", deque=False)]
    results = vp.parallel(mc_job + [lambda: validate_files(pid, files, tier)], n=2)
    mc, traces = results[0], results[1]
    # drift report (whole-spec conformance) on a sample of files: informational only
    drift = []
    if tier == "thorough":
        for f, r in validate_files(pid, files[:4], tier, conform=True, tag="c"):
            if r["violations"] or r["not_consumed"]:
                drift.append(os.path.basename(f["file"]))
    violations = []
    known = []
    tool_errors = []
    if mc.get("error"):
        tool_errors.append("model checking: " + mc["error"])
    for k, n in mc["violations"]:
        # the design itself violates the property: a defect of the model, not of /repo
        tool_errors.append("bounded model violates %s" % n)
    states = mc["distinct"]
    transitions = mc["generated"]
    nruns = 0
    rel = {"runs": 0, "events": 0, "relevant": 0}
    samples = []
    for f, r in traces:
        states += r["distinct"]
        transitions += r["generated"]
        c = relevance(pid, f["file"])
        for k2 in rel:
            rel[k2] += c[k2]
        nruns += f["runs"]
        if len(samples) < 3:
            samples.append({"trace": os.path.basename(f["file"]), "runs": f["sample_runs"][:2],
                            "first_events": open(f["file"]).read().splitlines()[2:6]})
        if r.get("error") and not r["violations"]:
            tool_errors.append("%s: %s" % (os.path.basename(f["file"]), r["error"]))
            continue
        if r["violations"]:
            kind, name = r["violations"][0]
            desc, run, header, off = find_run(f["file"], r["depth"] + 1)
            text = "%s %s" % (name, desc)
            fnd = vp.match_finding(pid, text)
            if fnd:
                known.append("KNOWN-FINDING: property=%s %s" % (pid, fnd["what"]))
                continue
            rp = vp.save_replay(pid, "%s_%s_seed%d" % (name, os.path.basename(f["file"]).split(".")[0], seed),
                                {"property": pid, "formula": name, "kind": kind, "run": desc,
                                 "failing_event_offset_in_run": off, "tier": tier, "seed": seed,
                                 "trace_header": header, "run_events": run,
                                 "how": "check %s --replay <this file> re-validates the recorded run with TLC" % pid},
                                files=[f["tokens"]])
            violations.append((name, desc, rp))
        elif r["not_consumed"]:
            tool_errors.append("%s: trace not consumed although no property was violated"
                               % os.path.basename(f["file"]))
    scripts = None
    if pid in ("C05", "C06", "C07"):
        # spec -> implementation: every script of offers up to a length, with the decisions and the
        # final score spec/OptScript.tla prescribes, replayed on a scripted state
        maxlen = 7 if tier == "thorough" else 5
        regimes = '{"zero"}' if pid == "C05" else '{"zero", "warm"}'
        scfg = ('SPECIFICATION Spec\nCONSTANTS\n  MaxLen = %d\n  Offers = {"B", "b", "E", "w", "W", "U"}\n  Regimes = %s\n'
                'INVARIANTS ZeroMonotone CountOK Emit\nCHECK_DEADLOCK FALSE\n' % (maxlen, regimes))
        sr = vp.run_tlc("MC_OptScript", scfg, pid + "_scripts", workers=8, timeout=3000, xmx="8g", deque=False)
        if sr.get("error") or sr["violations"]:
            tool_errors.append("OptScript: %s %s" % (sr.get("error"), sr["violations"]))
        else:
            snd = os.path.join(sr["dir"], "emitted.ndjson")
            ns = vp.extract_emitted(sr["out"], snd)
            sres = os.path.join(sr["dir"], "result.json")
            vp.pvh(["scripts", "--in", snd, "--out", sres, "--seed", str(seed)], timeout=3000)
            st = json.load(open(sres))["scripts"]
            states += sr["distinct"]
            transitions += sr["generated"]
            nruns += ns
            scripts = {"scripts_replayed": ns, "steps": st["steps"], "max_length": maxlen, "regimes": regimes,
                       "rule": "every sequence over {B,b,E,w,W,U} up to max_length; decisions read from the cells and the final score must be the prescribed ones"}
            for f in st["first_failures"][:3]:
                rp = vp.save_replay(pid, "script_seed%d" % seed, {"property": pid, "formula": "OptScript", "failures": [f]})
                violations.append(("OptScript", f["what"] + " script=" + f["state"]["script"], rp))
                break
    freq = None
    if pid in ("C07", "C18"):
        # statistical side-check, outside TLC: acceptance frequencies of controlled downhill moves
        fres = os.path.join(out, "frequency.json")
        vp.pvh(["frequency", "--out", fres, "--tier", tier, "--seed", str(seed)], timeout=3000)
        fr = json.load(open(fres))
        mine = [t for t in fr["tests"] if t["clause"] == pid]
        freq = {"tests": len(mine), "max_abs_deviation_sigma": max([abs(t["deviation_sigma"]) for t in mine] or [0]),
                "bound_sigma": 6, "sample": mine[:2]}
        for f in fr["first_failures"]:
            if ("loop" in f["state"]) == (pid == "C18"):
                rp = vp.save_replay(pid, "frequency_seed%d" % seed, {"property": pid, "formula": "frequency", "failures": [f]})
                violations.append(("frequency", f["what"], rp))
    basis = None
    if pid in ("C06", "C19"):
        # the handle used directly (spec/Basis.tla): bounded model + recorded call sequences
        broot = vp.gen_module("GenBasis", "Basis", {"GFx(v)": "v", "GValues": "0..4"})
        bcfg = ("SPECIFICATION Spec\nCONSTANTS\n  Fx <- GFx\n  Values <- GValues\n  Lo = 1\n  Hi = 3\n  Tol = 0\n"
                "INVARIANTS SetInRange\nPROPERTIES ResetUndoesSet\nCHECK_DEADLOCK FALSE\n")
        bm = vp.run_tlc("GenBasis", bcfg, pid + "_basis_mc", workers=2, timeout=600, root_text=broot)
        bout = os.path.join(out, "basis.ndjson")
        btok = os.path.join(out, "basis.tokens.json")
        vp.pvh(["basis-ops", "--out", bout, "--tokens", btok, "--tier", tier, "--seed", str(seed)])
        bt = vp.run_tlc("BasisTrace", "SPECIFICATION Spec\nPROPERTIES BasisLaws\nPOSTCONDITION Accepted\nCHECK_DEADLOCK FALSE\n",
                        pid + "_basis_tr", env={"TRACE": bout, "TOKENS": btok}, workers=1, timeout=1200)
        if bm.get("error") or bm["violations"]:
            tool_errors.append("Basis model: %s %s" % (bm.get("error"), bm["violations"]))
        if bt["violations"]:
            blines = open(bout).read().splitlines()
            ctx = blines[max(1, bt["depth"] - 3):bt["depth"] + 1]
            rp = vp.save_replay(pid, "basis_seed%d" % seed, {"property": pid, "formula": "BasisLaws", "calls": ctx}, files=[bout, btok])
            violations.append(("BasisLaws", "a direct call on a StandardBasis breaks the handle's law: " + ctx[-1], rp))
        elif bt.get("error") or bt["not_consumed"]:
            tool_errors.append("BasisTrace: %s" % (bt.get("error") or "not consumed"))
        states += bm["distinct"] + bt["distinct"]
        transitions += bm["generated"] + bt["generated"]
        basis = {"bounded_model_states": bm["distinct"], "recorded_calls": bt["distinct"]}
    builder = None
    if pid in ("C18", "C20"):
        # spec -> implementation: every script of builder calls (spec/Builder.tla) up to a length,
        # from Default::default() and from every command line over the option values, replayed on
        # the real BuildOptimiser; each build() compared with the configuration as last set
        jobs = [("default", 4, 2), ("cli", 2, 1)] + ([("default", 5, 1), ("cli", 3, 1)] if tier == "thorough" else [])
        builder = {"scripts_replayed": 0, "builds": 0, "origins": []}
        for origin, maxops, nb in jobs:
            bcfg = ('SPECIFICATION Spec\nCONSTANTS\n  Origin = "%s"\n  MaxOps = %d\n  NBuilders = %d\n  Variant = "spec"\n'
                    'INVARIANTS TypeOK Frame C20Shape C18Shape PassThrough Emit\nCHECK_DEADLOCK FALSE\n' % (origin, maxops, nb))
            br = vp.run_tlc("MC_Builder", bcfg, "%s_builder_%s_%d_%d" % (pid, origin, maxops, nb), workers=8, timeout=3000, xmx="8g", deque=False)
            if br.get("error") or br["violations"]:
                tool_errors.append("Builder model: %s %s" % (br.get("error"), br["violations"]))
                continue
            bnd = os.path.join(br["dir"], "emitted.ndjson")
            nb_scripts = vp.extract_emitted(br["out"], bnd)
            bres = os.path.join(br["dir"], "result.json")
            vp.pvh(["builder-scripts", "--in", bnd, "--out", bres], timeout=3000)
            bj = json.load(open(bres))
            states += br["distinct"]
            transitions += br["generated"]
            nruns += nb_scripts
            builder["scripts_replayed"] += bj["scripts"]
            builder["builds"] += bj["builds"]
            builder["origins"].append({"origin": origin, "max_ops": maxops, "builders": nb, "model_states": br["distinct"],
                                       "scripts": bj["scripts"], "schedule_kinds": bj["schedule_kinds"]})
            if bj["scripts"] == 0:
                tool_errors.append("Builder: no script replayed")
            for f in bj["first_failures"][:3]:
                rp = vp.save_replay(pid, "builder_%s_seed%d" % (origin, seed), {"property": pid, "formula": "Builder.Derive", "failures": [f]})
                violations.append(("Builder.Derive", f["what"] + ": " + "; ".join(f.get("observed", []) if isinstance(f.get("observed"), list) else [str(f.get("observed"))])
                                   + " after " + json.dumps(f["script"]["ops"][1:]), rp))
                break
    initial = None
    if pid == "C08":
        # every supported group with any shape of well-defined area starts from a valid state
        ires = os.path.join(out, "initial.json")
        vp.pvh(["initial-states", "--out", ires])
        ir = json.load(open(ires))
        initial = {"initial_states_checked": ir["initial_states_checked"],
                   "rule": "7 groups x (polygons 3..12, circle, 80 trimers) x {hard, LJ}: defined finite score, parameters inside the declared ranges, cell family of the group"}
        for f in ir["first_failures"][:3]:
            rp = vp.save_replay(pid, "initial_seed%d" % seed, {"property": pid, "formula": "initial state", "failures": [f]})
            violations.append(("initial state", f["what"] + " " + f["state"]["state"], rp))
            break
    induction = None
    if tier == "thorough" and pid in ("C06", "C08"):
        induction = apalache_induction(pid)
        if not all(o["ok"] for o in induction):
            vp.log("NOTE: Apalache induction did not complete as expected:", induction)
    cli = None
    if pid == "C20":
        # CLI clause: the real binary ends with status 0 and both files, or with a message and a
        # non-zero status, never with a panic (spec/Pipeline.tla ExitOK, judged by PipelineTrace)
        import pipe_checks
        pm = vp.run_tlc("Pipeline", pipe_checks.mc_cfg(3, 2, 1), "C20_pipe_mc", workers=4, timeout=1200, deque=False)
        if pm.get("error") or pm["violations"]:
            tool_errors.append("Pipeline model: %s %s" % (pm.get("error"), pm["violations"]))
        states += pm["distinct"]
        transitions += pm["generated"]
        obs = pipe_checks.cli_failures("C20", tier, seed, want_cli=True, want_pool=False)
        if obs["error"]:
            tool_errors.append("PipelineTrace: " + str(obs["error"]))
        for what, state in obs["failures"]:
            fnd = vp.match_finding(pid, what + " " + json.dumps(state))
            if fnd:
                known.append("KNOWN-FINDING: property=%s %s" % (pid, fnd["what"]))
                continue
            rp = vp.save_replay(pid, "C20Cli_seed%d" % seed, {"property": pid, "formula": "C20Cli", "failures": [{"what": what, "state": state}]})
            violations.append(("C20Cli", what, rp))
        cli = {"cli_invocations": obs["stats"]["cli_invocations"], "events": obs["events"],
               "pipeline_model_states": pm["distinct"], "formulas": ["C20Cli", "ExitOK", "Terminates"]}
        nruns += obs["stats"]["cli_invocations"]
    wall = time.time() - t0
    coverage = {
        "cli_clause": cli,
        "builder_script_replay": builder,
        "frequency_side_check": freq,
        "script_replay": scripts,
        "initial_states": initial,
        "basis_handle_direct": basis,
        "apalache_inductive_invariant": induction,
        "states": states, "transitions": transitions,
        "traces_validated_against_impl": nruns,
        "samples": samples,
        "bounded_model": {"distinct_states": mc["distinct"], "states_generated": mc["generated"],
                          "depth": mc["depth"], "wall_s": round(mc["wall"], 1),
                          "formulas": FORMULAS[pid]["mc_inv"] + FORMULAS[pid]["mc_props"] + ["WitnessForm"]},
        "trace_validation": {"files": len(files), "runs": nruns, "events": rel["events"],
                             "formulas": FORMULAS[pid]["inv"] + FORMULAS[pid]["props"],
                             "relevant_events": rel["relevant"],
                             "rule": "relevant = events on which the property's antecedent holds (see lib/opt_checks.py:relevance)",
                             "per_file": [{k: v for k, v in f.items() if k not in ("sample_runs",)} for f in files]},
        "spec_drift_files": drift,
        "exhaustive": False,
    }
    vp.write_evidence(pid, tier, seed, "model_checking", coverage, wall, len(violations),
                      ["hooks report the optimiser's registers; the parameter cells are read directly",
                       "fixed point 1e-6: a violation of a range or step bound must exceed 2e-6 to be reported",
                       "a draw within 1e-9 (relative) of the acceptance probability is not judged",
                       "real-state histories are sampled (seed %d), the bounded model is exhaustive" % seed])
    for k in known:
        print(k)
    if tool_errors and not violations:
        for t in tool_errors:
            vp.log("TOOL-ERROR:", t)
        return 2
    if rel["relevant"] == 0:
        vp.log("TOOL-ERROR: no recorded event exercises %s (vacuous run)" % pid)
        return 2
    for name, desc, rp in violations:
        print("VIOLATION property=%s replay=%s" % (pid, rp))
        vp.log("  formula %s failed in run: %s" % (name, desc))
    vp.log("[%s] %s: %d runs, %d events, %d relevant, model %d states, %.0fs"
           % (pid, TITLE[pid], nruns, rel["events"], rel["relevant"], mc["distinct"], wall))
    return 1 if violations else 0


def replay(ctx):
    pid = ctx["pid"]
    rp = json.load(open(ctx["replay"]))
    d = os.path.join(vp.WORK, pid + "_replay")
    os.makedirs(d, exist_ok=True)
    tr = os.path.join(d, "trace.ndjson")
    with open(tr, "w") as f:
        f.write(rp["trace_header"] + "\n")
        for l in rp["run_events"]:
            f.write(l + "\n")
    tokens = [x for x in rp.get("files", []) if x.endswith(".tokens.json")][0]
    r = vp.run_tlc("OptimiserTrace", trace_cfg(pid), pid + "_replay_tlc",
                   env={"TRACE": tr, "TOKENS": tokens}, workers=1, timeout=600)
    if r["violations"]:
        print("VIOLATION property=%s replay=%s" % (pid, ctx["replay"]))
        vp.log("  %s violated at event %d of the run: %s" % (r["violations"][0][1], r["depth"], rp["run"]))
        return 1
    vp.log("replay: the recorded run satisfies the formulas of %s" % pid)
    return 0


def apalache_induction(tag):
    """Unbounded safety of the design's core step with Apalache: IndInv of spec/apalache/
    OptimiserInd.tla holds initially, is preserved by every step for arbitrary integer values,
    implies RejectRestores and InBounds; the hypothesis is satisfiable (NeverDecide is refuted)."""
    import subprocess
    d = os.path.join(vp.WORK, tag + "_apalache")
    os.makedirs(d, exist_ok=True)
    runs = [("base", ["--init=Init", "--inv=IndInv", "--length=0"], "NoError"),
            ("step", ["--init=IndInit", "--inv=IndInv", "--length=1"], "NoError"),
            ("implies RejectRestores", ["--init=IndInit", "--inv=RejectRestores", "--length=0"], "NoError"),
            ("hypothesis satisfiable", ["--init=IndInit", "--inv=NeverDecide", "--length=1"], "Error")]
    out = []
    for name, args, expect in runs:
        try:
            r = subprocess.run(["timeout", "900", "apalache-mc", "check", "--out-dir=" + d, "--run-dir=" + os.path.join(d, name.replace(" ", "_"))] + args +
                               [os.path.join(vp.SPEC, "apalache", "OptimiserInd.tla")], cwd=d, stdout=subprocess.PIPE, stderr=subprocess.STDOUT, text=True)
            m = [l for l in r.stdout.splitlines() if "The outcome is:" in l]
            got = m[-1].split("The outcome is:")[1].split()[0] if m else "none"
        except Exception as e:  # noqa
            got = "failed: %s" % e
        out.append({"obligation": name, "args": " ".join(args), "outcome": got, "expected": expect, "ok": got == expect})
    return out


def aux_trace_check(tag, inv, props, suites, tier, seed):
    """Validate recorded optimiser runs against extra formulas of OptimiserTrace on behalf of a
    property that is mainly checked elsewhere (C04: family-frozen parameters never move)."""
    out = os.path.join(vp.WORK, tag + "_traces")
    os.makedirs(out, exist_ok=True)
    for fn in os.listdir(out):
        os.remove(os.path.join(out, fn))
    vp.pvh(["opt", "--out", out, "--tier", tier, "--seed", str(seed), "--suites", suites])
    files = json.load(open(os.path.join(out, "index.json")))["files"]
    cfg = "SPECIFICATION Spec\n"
    if inv:
        cfg += "INVARIANTS " + " ".join(inv) + "\n"
    if props:
        cfg += "PROPERTIES " + " ".join(props) + "\n"
    cfg += "POSTCONDITION Accepted\nCHECK_DEADLOCK FALSE\n"
    jobs = []
    for k, f in enumerate(files):
        def job(f=f, k=k):
            return f, vp.run_tlc("OptimiserTrace", cfg, "%s_tr_%d" % (tag, k),
                                 env={"TRACE": f["file"], "TOKENS": f["tokens"]}, workers=1, timeout=3000, xmx="3g")
        jobs.append(job)
    res = {"runs": 0, "events": 0, "states": 0, "failures": [], "errors": []}
    for f, r in vp.parallel(jobs, n=8):
        res["runs"] += f["runs"]
        res["events"] += f["lines"]
        res["states"] += r["distinct"]
        if r["violations"]:
            kind, name = r["violations"][0]
            desc, run, header, off = find_run(f["file"], r["depth"] + 1)
            res["failures"].append(("%s violated in recorded run" % name, {"run": desc, "event_offset": off}))
        elif r.get("error") or r["not_consumed"]:
            res["errors"].append(os.path.basename(f["file"]))
    return res


REGISTRY = {pid: run_check for pid in FORMULAS}
