"""Checks for the replica pipeline: C09 (determinism, ownership), C10 (best replica written,
labels, prefix monotonicity) and the CLI clause of C20.

(1) TLC model-checks spec/Pipeline.tla: all interleavings of workers at cell-operation grain,
all reduction trees, all faults.  (2) The real binary (hooks on, file sink) and in-process rayon
pools are run over a matrix of configurations, thread counts, replication counts and repeats;
(3) TLC judges the recorded invocations against spec/PipelineTrace.tla."""
import json
import os
import struct
import subprocess
import time

import vp

ORDER = {"p1": 1, "p2": 2, "p1m1": 2, "p1g1": 2, "p2mm": 4, "p2mg": 4, "p2gg": 4}
FAMILY = {"p1": "Monoclinic", "p2": "Monoclinic"}
FORMULAS = {"C09": ["C09Deterministic", "C09Output", "C10Cmp"], "C10": ["C10Best", "C10Labels", "C10Monotone", "C10Cmp"],
            "C20": ["C20Cli"]}


def mc_cfg(R, W, K, variant="spec", faults='{"none", "badArgs", "jsonFail", "svgFail"}', live=True, M=7):
    return ("SPECIFICATION Spec\nCONSTANTS\n  R = %d\n  W = %d\n  K = %d\n  Stages = 3\n  M = %d\n  Variant = \"%s\"\n"
            "  Faults = %s\nINVARIANTS TypeOK Ownership InputUnchanged Deterministic ReduceTreeIndependent BestWritten "
            "LoggedIsWritten FileIsBest PrefixMonotone ExitOK\n%sCHECK_DEADLOCK FALSE\n"
            % (R, W, K, M, variant, faults, "PROPERTIES Terminates\n" if live else ""))


def model_check(tier, pid="pipe"):
    th = tier == "thorough"
    # (R, W, K, M): M = 2 or 3 makes replicas tie
    runs = [(3, 2, 1, 7), (0, 2, 1, 7), (2, 2, 2, 7), (4, 2, 1, 3), (3, 2, 1, 2)] + ([(4, 3, 1, 7), (3, 3, 2, 5), (5, 2, 1, 3)] if th else [])
    jobs = []
    for (R, W, K, M) in runs:
        def job(R=R, W=W, K=K, M=M):
            return (R, W, K), vp.run_tlc("Pipeline", mc_cfg(R, W, K, M=M), "%s_pipe_mc_%d_%d_%d_%d" % (pid, R, W, K, M), workers=4,
                                         timeout=3000, xmx="6g", deque=False)
        jobs.append(job)
    return vp.parallel(jobs, n=4)


def f64_of(hexbits):
    return struct.unpack(">d", bytes.fromhex(hexbits))[0]


class Recorder:
    def __init__(self):
        self.records = []     # raw records with score bits / digests
        self.cfg = 0

    def new_cfg(self):
        self.cfg += 1
        return self.cfg


def run_cli(binary, rec, cfg, group, shape_args, potential, reps, threads, extra, workdir, shape_kind,
            exp_items, outfile=None, expect_ok=True, keep_existing=False, verbose=0):
    tag = "inv%d" % len(rec.records)
    base = outfile or os.path.join(workdir, tag)
    trace = os.path.join(workdir, tag + ".trace")
    errf = os.path.join(workdir, tag + ".stderr")
    for p in (trace,) + (() if keep_existing else (base + ".json", base + ".svg")):
        if os.path.exists(p):
            os.remove(p)
    if verbose:
        extra = ["-" + "v" * verbose] + list(extra)
    args = [binary, "--outfile", base, "--replications", str(reps), "--potential", potential] + extra + [group] + shape_args
    env = dict(os.environ, RAYON_NUM_THREADS=str(threads), PACKING_VERIF_TRACE=trace, RUST_BACKTRACE="0")
    with open(errf, "w") as ef:
        try:
            p = subprocess.run(args, env=env, stdout=subprocess.DEVNULL, stderr=ef, timeout=600)
            code = p.returncode
        except subprocess.TimeoutExpired:
            code = 124
    out = subprocess.run([vp.PVH, "cli-inspect", "--trace", trace, "--json", base + ".json", "--svg", base + ".svg",
                          "--stderr", errf, "--shape", shape_kind, "--potential", potential],
                         stdout=subprocess.PIPE, text=True)
    info = json.loads(out.stdout) if out.returncode == 0 and out.stdout.strip() else {"replicas": [], "written": None}
    stderr_text = open(errf).read()
    rec.records.append({"ev": "invoke", "cfg": cfg, "kind": "cli", "reps": reps, "threads": threads,
                        "expName": group, "expFamily": FAMILY.get(group, "Orthorhombic"), "expCopies": ORDER.get(group, 0),
                        "expItems": exp_items, "expOk": expect_ok,
                        "args": " ".join(args[1:])})
    for r in sorted(info.get("replicas", []), key=lambda x: x["r"]):
        rec.records.append({"ev": "replica", "r": r["r"], "score_bits": r["score_bits"], "digest": r["digest"],
                            "stages": r["stages"]})
    w = info.get("written") or {}
    rec.records.append({"ev": "output", "code": code, "json": bool(info.get("json_exists")), "svg": bool(info.get("svg_exists")),
                        "msg": bool(info.get("message")) or ("error" in stderr_text.lower()),
                        "panic": bool(info.get("panicked")) or code == 101 or (code < 0 and code != -9),
                        "timedOut": code == 124,
                        "written_bits": w.get("score_bits"), "logged_bits": info.get("logged_bits"),
                        "json_digest": w.get("json_digest"), "svg_digest": info.get("svg_digest"),
                        "name": w.get("name") or "", "family": w.get("family") or "", "cellFamily": w.get("cell_family") or "",
                        "shape": w.get("shape") or "", "items": w.get("items") or 0, "copies": w.get("copies") or 0,
                        "symmetries": w.get("symmetries") or 0, "uses": info.get("svg_mol_uses") or 0,
                        "inputUnchanged": True, "stderr_tail": stderr_text[-300:]})


def observe(tier, seed, want_cli=True, want_pool=True, cli_focus="all", pid="pipe"):
    """Run the drivers; return (records, stats)."""
    th = tier == "thorough"
    rec = Recorder()
    work = os.path.join(vp.WORK, pid + "_pipe_obs")   # one directory per check: checks may run side by side
    os.makedirs(work, exist_ok=True)
    stats = {"cli_invocations": 0, "pool_invocations": 0}
    if want_pool:
        pool = os.path.join(work, "pool.ndjson")
        vp.pvh(["pool-runs", "--out", pool, "--tier", tier, "--seed", str(seed)], timeout=3000)
        base = 0
        for line in open(pool):
            r = json.loads(line)
            if r["ev"] == "invoke":
                r["cfg"] = 100000 + r["cfg"]
                stats["pool_invocations"] += 1
            rec.records.append(r)
    if want_cli:
        binary = vp.build_binary()
        opt = ["--steps", "200" if th else "100", "--inner-steps", "50", "--kt-start", "0.1", "--kt-ratio", "0.3",
               "--max-step-size", "0.05"]
        shapes = [("polygon", ["polygon", "--sides", "4"], "Hard", 4), ("polygon", ["polygon", "--sides", "5"], "Hard", 5),
                  ("circle", ["circle"], "Hard", 1), ("trimer", ["trimer"], "Hard", 3),
                  ("circle", ["circle"], "LJ", 1), ("trimer", ["trimer"], "LJ", 3),
                  ("trimer", ["trimer", "--radius", "0.5", "--angle", "100", "--distance", "1.2"], "Hard", 3)]
        groups = list(ORDER)
        k = 0
        for gi, g in enumerate(groups):
            for si, (kind, sargs, pot, items) in enumerate(shapes):
                # quick: every group with three of the shapes, rotating; thorough: everything
                if not th and (si + gi + seed) % len(shapes) not in (0, 3, 5):
                    continue
                cfg = rec.new_cfg()
                maxreps = 5 if th else 4
                for reps in range(1, maxreps + 1):
                    run_cli(binary, rec, cfg, g, sargs, pot, reps, 1 if reps % 2 else 4, opt, work, kind, items)
                    stats["cli_invocations"] += 1
                # the same arguments again: more threads, another process
                for threads in ([2, 16] if not th else [2, 3, 8, 16]):
                    run_cli(binary, rec, cfg, g, sargs, pot, maxreps, threads, opt, work, kind, items)
                    stats["cli_invocations"] += 1
                k += 1
        # the output path already holds the (longer) files of an earlier run
        cfg = rec.new_cfg()
        shared = os.path.join(work, "shared_out")
        for p in (shared + ".json", shared + ".svg"):
            if os.path.exists(p):
                os.remove(p)
        run_cli(binary, rec, cfg, "p2gg", ["trimer"], "Hard", 2, 2, opt, work, "trimer", 3, outfile=shared)
        cfg = rec.new_cfg()
        run_cli(binary, rec, cfg, "p1", ["circle"], "Hard", 2, 2, opt, work, "circle", 1, outfile=shared, keep_existing=True)
        stats["cli_invocations"] += 2
        # debug logging switched on (log statements are only evaluated then)
        for (extra, v) in ((["--steps", "0"], 1), (["--steps", "30", "--inner-steps", "7"], 2), (["--steps", "0", "--inner-steps", "0"], 3)):
            cfg = rec.new_cfg()
            run_cli(binary, rec, cfg, "p2", ["circle"], "Hard", 2, 2, extra, work, "circle", 1, verbose=v)
            stats["cli_invocations"] += 1
        # steps so large that every proposal is clamped onto a limit: replicas that tie bit for bit
        # in score while their states differ (the winner must not depend on the reduction tree)
        cfg = rec.new_cfg()
        for threads in (1, 16, 3, 5):
            run_cli(binary, rec, cfg, "p1", ["polygon", "--sides", "4"], "Hard", 16, threads,
                    ["--steps", "50", "--max-step-size", "1000000"], work, "polygon", 4)
            stats["cli_invocations"] += 1
        # many replications (work handed out in batches must still return the best of all)
        many = ["--steps", "60", "--inner-steps", "30", "--kt-start", "0.2", "--kt-ratio", "0.5", "--max-step-size", "0.1"]
        for (g, sargs, kind, items, counts) in (("p1", ["circle"], "circle", 1, (26, 51, 76, 101, 201)), ("p2", ["polygon", "--sides", "4"], "polygon", 4, (76, 101, 201)),
                                                ("p1g1", ["circle"], "circle", 1, (76, 101, 201)), ("p2mm", ["polygon", "--sides", "5"], "polygon", 5, (76, 101, 201)),
                                                ("p2", ["trimer"], "trimer", 3, (76, 101, 201))):
            cfg = rec.new_cfg()
            for reps in counts:
                run_cli(binary, rec, cfg, g, sargs, "Hard", reps, 4, many, work, kind, items)
                stats["cli_invocations"] += 1
        # the output path holds a better-scoring structure of the same group and shape kind with
        # other shape parameters: what is written is what was asked for now
        shared2 = os.path.join(work, "shared_out2")
        for p2 in (shared2 + ".json", shared2 + ".svg"):
            if os.path.exists(p2):
                os.remove(p2)
        cfg = rec.new_cfg()
        run_cli(binary, rec, cfg, "p1", ["polygon", "--sides", "4"], "Hard", 4, 4, ["--steps", "2000"], work, "polygon", 4, outfile=shared2)
        cfg = rec.new_cfg()
        run_cli(binary, rec, cfg, "p1", ["polygon", "--sides", "5"], "Hard", 1, 1, ["--steps", "100"], work, "polygon", 5, outfile=shared2, keep_existing=True)
        stats["cli_invocations"] += 2
        # an option the program accepts and does not use
        cfg = rec.new_cfg()
        run_cli(binary, rec, cfg, "p2mm", ["circle"], "Hard", 2, 2, opt + ["--start-config", os.path.join(work, "no_such_file.json")], work, "circle", 1)
        stats["cli_invocations"] += 1
        # many replicas per thread and long stages (reductions that treat batches of replicas
        # differently show here)
        for (g, sargs, kind, items) in [("p1", ["polygon", "--sides", "4"], "polygon", 4)] + \
                ([("p2", ["trimer"], "trimer", 3), ("p2mg", ["circle"], "circle", 1)] if th else []):
            cfg = rec.new_cfg()
            for threads in (1, 2, 4, 16):
                run_cli(binary, rec, cfg, g, sargs, "Hard", 16, threads,
                        ["--steps", "1000", "--inner-steps", "1000", "--kt-start", "0.1"], work, kind, items)
                stats["cli_invocations"] += 1
        # short hot Lennard-Jones runs: replicas end with scores of both signs
        cfg = rec.new_cfg()
        for reps in (1, 2, 3, 4, 5, 6):
            run_cli(binary, rec, cfg, "p1", ["circle"], "LJ", reps, 2,
                    ["--steps", "10", "--inner-steps", "10", "--kt-start", "100", "--kt-ratio", "0", "--max-step-size", "0.1"],
                    work, "circle", 1)
            stats["cli_invocations"] += 1
        # a convergence threshold on the command line (stage 1 ignores it, stages 2 and 3 use it)
        cfg = rec.new_cfg()
        for reps in (1, 2, 3):
            run_cli(binary, rec, cfg, "p2mg", ["polygon", "--sides", "6" if th else "3"], "Hard", reps, 2,
                    ["--steps", "400", "--inner-steps", "20", "--kt-start", "0.05", "--kt-ratio", "0.5", "--convergence", "0.0001"],
                    work, "polygon", 6 if th else 3)
            stats["cli_invocations"] += 1
        # kt_finish given (stages 1 and 3 start at zero temperature with a finish temperature)
        cfg = rec.new_cfg()
        for reps in (1, 2, 3):
            run_cli(binary, rec, cfg, "p2", ["polygon"], "Hard", reps, 4,
                    ["--steps", "100", "--inner-steps", "20", "--kt-start", "0.1", "--kt-finish", "0.001"], work, "polygon", 4)
            stats["cli_invocations"] += 1
        # invocations that must end in an error message (or succeed), never in a panic
        errs = [("p2", ["polygon"], "LJ", 2, []), ("p2", ["polygon", "--sides", "2"], "Hard", 2, []),
                ("p1", ["circle"], "Hard", 0, []), ("p2mg", ["circle"], "LJ", 0, []),
                ("p2", ["circle"], "Hard", 2, ["--steps", "0"]), ("p2gg", ["trimer"], "LJ", 2, ["--steps", "0"]),
                ("p2", ["circle"], "Hard", 2, ["--inner-steps", "0"]),
                ("p2", ["circle"], "Hard", 3, ["--steps", "7", "--inner-steps", "1000"]),
                ("p1m1", ["polygon", "--sides", "3"], "Hard", 2, ["--kt-start", "0"]),
                ("p3", ["circle"], "Hard", 2, []),
                ("p2", ["trimer", "--radius", "0.5", "--distance", "0.2", "--angle", "180"], "Hard", 2, []),
                ("p2", ["circle"], "LJ", 2, ["--kt-start", "0", "--kt-finish", "0"]),
                ("p2mm", ["circle"], "LJ", 3, ["--max-step-size", "1", "--steps", "300", "--kt-start", "5"])]
        for (g, sargs, pot, reps, extra) in errs:
            cfg = rec.new_cfg()
            kind = sargs[0]
            items = {"circle": 1, "trimer": 3}.get(kind, int(sargs[sargs.index("--sides") + 1]) if "--sides" in sargs else 4)
            run_cli(binary, rec, cfg, g, sargs, pot, reps, 4, ["--steps", "50", "--inner-steps", "10"] + extra, work, kind, items,
                    expect_ok=False)
            stats["cli_invocations"] += 1
        cfg = rec.new_cfg()
        run_cli(binary, rec, cfg, "p2", ["circle"], "Hard", 2, 2, ["--steps", "50"], work, "circle", 1,
                outfile="/nonexistent-directory/sub/out", expect_ok=False)
        stats["cli_invocations"] += 1
    return rec.records, stats


def project(records, path):
    """Ranks for scores, tokens for digests; one ndjson line per record."""
    vals = set()
    for r in records:
        for k in ("score_bits", "written_bits", "logged_bits", "a_bits", "b_bits"):
            if r.get(k):
                v = f64_of(r[k])
                if v == v and abs(v) != float("inf"):
                    vals.add(v)
    order = sorted(vals)
    rank = {v: i for i, v in enumerate(order)}

    def rk(bits):
        if not bits:
            return -1
        v = f64_of(bits)
        return rank.get(v, -2)
    toks = {}

    def tok(d):
        if not d:
            return 0
        return toks.setdefault(d, len(toks) + 1)
    lines = [json.dumps({"ev": "header", "n": len(records)})]
    for r in records:
        if r["ev"] == "invoke":
            lines.append(json.dumps({"ev": "invoke", "cfg": r["cfg"], "kind": r.get("kind", "lib"), "reps": r["reps"],
                                     "threads": r.get("threads", 0), "expName": r.get("expName", ""),
                                     "expFamily": r.get("expFamily", ""), "expCopies": r.get("expCopies", 0),
                                     "expItems": r.get("expItems", 0), "desc": r.get("desc", r.get("args", ""))}))
        elif r["ev"] == "cmp":
            lines.append(json.dumps({"ev": "cmp", "a": rk(r["a_bits"]), "b": rk(r["b_bits"]), "ord": r["ord"], "eq": r["eq"],
                                     "maxb": r["maxb"], "desc": r.get("desc", "")}))
        elif r["ev"] == "replica":
            lines.append(json.dumps({"ev": "replica", "r": r["r"], "score": rk(r.get("score_bits")), "digest": tok(r.get("digest"))}))
        else:
            lines.append(json.dumps({"ev": "output", "code": r["code"], "json": r["json"], "svg": r["svg"],
                                     "msg": r.get("msg", False), "panic": r.get("panic", False),
                                     "written": rk(r.get("written_bits")), "logged": rk(r.get("logged_bits")),
                                     "jsonDigest": tok(r.get("json_digest")), "svgDigest": tok(r.get("svg_digest")),
                                     "name": r.get("name", ""), "family": r.get("family", ""),
                                     "cellFamily": r.get("cellFamily", ""), "shape": str(r.get("items", 0)),
                                     "copies": r.get("copies", 0), "symmetries": r.get("symmetries", 0),
                                     "uses": r.get("uses", 0), "inputUnchanged": r.get("input_unchanged", r.get("inputUnchanged", True))}))
    # expShape is compared as the number of items of the shape
    out = []
    for l in lines:
        d = json.loads(l)
        if d["ev"] == "invoke":
            d["expShape"] = str(d.pop("expItems"))
        out.append(json.dumps(d))
    open(path, "w").write("\n".join(out) + "\n")
    return len(out)


def judge(pid, records, tag):
    d = os.path.join(vp.WORK, tag)
    os.makedirs(d, exist_ok=True)
    path = os.path.join(d, "pipeline.ndjson")
    n = project(records, path)
    cfg = "SPECIFICATION Spec\nPROPERTIES " + " ".join(FORMULAS[pid]) + "\nPOSTCONDITION Accepted\nCHECK_DEADLOCK FALSE\n"
    r = vp.run_tlc("PipelineTrace", cfg, tag + "_tlc", env={"TRACE": path}, workers=1, timeout=1800)
    return r, path, n


def describe_failure(records, path, depth):
    """the invocation around log line depth+1"""
    lines = open(path).read().splitlines()
    # TLC's behaviour ends in the state after the violating step; state number = lines consumed,
    # so the offending event is line `depth` (1-based) of the log
    i = min(max(depth - 1, 1), len(lines) - 1)
    s = i
    while s > 1 and '"ev": "invoke"' not in lines[s]:
        s -= 1
    e = s + 1
    while e < len(lines) and '"ev": "invoke"' not in lines[e]:
        e += 1
    return json.loads(lines[s]), lines[s:e], lines[i]


def cli_failures(pid, tier, seed, want_cli=True, want_pool=True):
    """Observe, judge with TLC. Returns dict(failures, stats, tlc)."""
    records, stats = observe(tier, seed, want_cli, want_pool, pid=pid)
    # an invocation that ran into the driver's own time limit says nothing about the program
    if any(r.get("timedOut") for r in records):
        return {"failures": [], "stats": stats, "tlc": {"distinct": 0, "generated": 0, "violations": [], "text_tail": ""}, "events": 0, "path": "",
                "error": "a CLI invocation exceeded the driver's time limit of 600 s (machine overloaded?)"}
    r, path, n = judge(pid, records, pid + "_pipe")
    res = {"failures": [], "stats": stats, "tlc": r, "events": n, "path": path, "error": None}
    if r["violations"]:
        kind, name = r["violations"][0]
        inv, lines, at = describe_failure(records, path, r["depth"])
        res["failures"].append(("%s violated by invocation: %s" % (name, inv.get("desc", "")),
                                {"invocation": inv, "events": [json.loads(x) for x in lines], "failing_event": json.loads(at)}))
    elif r.get("error") or r["not_consumed"]:
        res["error"] = r.get("error") or "trace not consumed"
    return res


def run_check(ctx):
    pid, tier, seed, t0 = ctx["pid"], ctx["tier"], ctx["seed"], ctx["t0"]
    vp.build_harness()
    if ctx.get("replay"):
        rp = json.load(open(ctx["replay"]))
        d = os.path.join(vp.WORK, pid + "_replay")
        os.makedirs(d, exist_ok=True)
        path = os.path.join(d, "pipeline.ndjson")
        evs = rp["failures"][0]["state"]["events"]
        open(path, "w").write("\n".join([json.dumps({"ev": "header"})] + [json.dumps(e) for e in evs]) + "\n")
        cfg = "SPECIFICATION Spec\nPROPERTIES " + " ".join(FORMULAS[pid]) + "\nPOSTCONDITION Accepted\nCHECK_DEADLOCK FALSE\n"
        r = vp.run_tlc("PipelineTrace", cfg, pid + "_replay_tlc", env={"TRACE": path}, workers=1, timeout=600)
        if r["violations"]:
            print("VIOLATION property=%s replay=%s" % (pid, ctx["replay"]))
            return 1
        return 0
    mcs = model_check(tier, pid)
    states = transitions = 0
    mc_summary = []
    for (R, W, K), r in mcs:
        if r.get("error") or r["violations"]:
            vp.log("TOOL-ERROR: Pipeline model R=%d W=%d K=%d: %s %s" % (R, W, K, r.get("error"), r["violations"]))
            return 2
        states += r["distinct"]
        transitions += r["generated"]
        mc_summary.append({"R": R, "W": W, "K": K, "distinct_states": r["distinct"]})
    obs = cli_failures(pid, tier, seed)
    if obs["error"]:
        vp.log("TOOL-ERROR: PipelineTrace:", obs["error"], obs["tlc"]["text_tail"][-1200:])
        return 2
    states += obs["tlc"]["distinct"]
    transitions += obs["tlc"]["generated"]
    lines = open(obs["path"]).read().splitlines()
    samples = [json.loads(x) for x in lines[1:4]]
    import geo_checks
    coverage = {"states": states, "transitions": transitions,
                "traces_validated_against_impl": obs["stats"]["cli_invocations"] + obs["stats"]["pool_invocations"],
                "samples": samples, "bounded_models": mc_summary,
                "cli_invocations": obs["stats"]["cli_invocations"], "rayon_pool_invocations": obs["stats"]["pool_invocations"],
                "events": obs["events"], "formulas": FORMULAS[pid],
                "rule": "model: every interleaving of W workers over R replicas at cell read/write grain, every contiguous reduction tree, every fault; "
                        "observations: the real binary over groups x shapes x potentials x replications 1..k x RAYON_NUM_THREADS in {1,2,4,16} x repeated processes, "
                        "and the pipeline run in-process in rayon pools of 1..16 threads against isolated sequential references (fresh thread per replica)",
                "exhaustive": False}
    rc = geo_checks.finish(pid, tier, seed, t0, coverage, obs["failures"],
                           ["interference is modelled at cell-operation grain; the memory model below it (unsafe impl Sync) is reduced to the Ownership invariant",
                            "real schedules are sampled (rayon work stealing is not controlled)",
                            "hook events are compared through a 64-bit digest of their text"])
    vp.log("[%s] pipeline: %d CLI invocations, %d pool invocations, %d events, model %s, %.0fs"
           % (pid, obs["stats"]["cli_invocations"], obs["stats"]["pool_invocations"], obs["events"],
              [m["distinct_states"] for m in mc_summary], time.time() - t0))
    return rc


REGISTRY = {"C09": run_check, "C10": run_check}
