"""Checks for the crystal geometry: C01 C02 C04 C12 C15 C16 (spec -> implementation replay).

TLC enumerates the reachable grid states of spec/Crystal.tla (resp. Pairs.tla, Wallpaper.tla),
computes every observable exactly in integer arithmetic and prints one JSON line per state;
the harness runs the real code on every printed state and compares. C01 additionally validates
recorded optimisation histories (the optimiser is the adversary of the overlap test)."""
import json
import os
import time

import vp

G7 = ["p1", "p2", "p1m1", "p1g1", "p2mm", "p2mg", "p2gg"]
# user-built groups of spec/Wallpaper.tla (operations in another order, centred cells, a four-fold axis)
UG = ["p2r", "p2mgr", "c1m1", "c2mm", "p4"]


def crystal_cfg(invs, U=10, D=8):
    return ("SPECIFICATION Spec\nCONSTANTS\n  U = %d\n  D = %d\n  GroupSet <- GGroups\n"
            "  ShapeSet <- GShapes\n  AxSet <- GAx\n  BSet <- GB\n  SiteSet <- GSite\n"
            "  OrientSet <- GOrient\nINVARIANTS %s\nCHECK_DEADLOCK FALSE\n" % (U, D, " ".join(invs)))


def crystal_run(tag, groups, shapes, ax, b, site, orient, invs, U=10, D=8, workers=16, timeout=3000):
    defs = {"GGroups": vp.tla_set(groups), "GShapes": shapes, "GAx": vp.tla_set(ax),
            "GB": vp.tla_set(b), "GSite": vp.tla_set(site), "GOrient": vp.tla_set(orient)}
    name = "Gen_" + tag
    root = vp.gen_module(name, "MC_Crystal", defs)
    r = vp.run_tlc(name, crystal_cfg(invs, U, D), tag, workers=workers, timeout=timeout, xmx="12g",
                   deque=False, root_text=root)
    nd = os.path.join(r["dir"], "emitted.ndjson")
    r["n_emitted"] = vp.extract_emitted(r["out"], nd)
    r["ndjson"] = nd
    r["defs"] = defs
    return r


def replay(kind, r):
    res = os.path.join(r["dir"], "result.json")
    vp.pvh([kind, "--in", r["ndjson"], "--out", res])
    return json.load(open(res))


# per property: list of enumerations (quick, thorough additions)
def plans(pid, tier):
    th = tier == "thorough"
    P = []
    if pid == "C01":
        P.append(dict(tag="fat", groups=G7, shapes="{Square, Quad, Kite2, Circle, Trimer(5, 15), Trimer(2, 5)}",
                      ax=[16, 20, 28] + ([24, 34, 40] if th else []),
                      b=[(0, 14), (0, 20), (9, 12), (12, 16), (6, 8)] + ([(0, 10), (0, 28), (15, 20), (5, 12)] if th else []),
                      site=[-4, -1, 2] + ([-3, 0, 1, 3, 4] if th else []), orient=[1, 5] + ([2, 6, 13] if th else []),
                      invs=["ModelOK", "Emit"]))
        # thin molecules in thin sheared cells: the region in which a fixed shell count fails
        P.append(dict(tag="thin", groups=["p1", "p2"] if th else ["p1"], shapes="{Trimer(1, 200)}" if not th else "ThinShapes",
                      ax=[56, 60, 64, 68, 72, 76],
                      b=[(bx, by) for bx in (3, 5, 8, 11, 14) for by in (12, 15, 17, 20)] + ([(0, 12), (7, 24)] if th else []),
                      site=[0] + ([3] if th else []), orient=[1, 2, 5] + ([6] if th else []),
                      invs=["ModelOK", "Emit"] + (["LemmasOK"] if th else []), timeout=10000 if th else 3000))
    elif pid == "C02":
        P.append(dict(tag="score", groups=G7, shapes="{Square, Kite, Quad, Circle, Trimer(5, 15), Trimer(10, 20)}",
                      ax=[20, 28, 40, 64] + ([32, 48] if th else []),
                      b=[(0, 20), (0, 28), (0, 40), (12, 16), (15, 20), (24, 32)] + ([(0, 64), (9, 12), (21, 28)] if th else []),
                      site=[-4, -2, 1] + ([0, 3] if th else []), orient=[1, 5] + ([14] if th else []),
                      invs=["ModelOK", "LemmasOK", "Emit"] if th else ["ModelOK", "Emit"]))
    elif pid == "C04":
        P.append(dict(tag="sym", groups=G7 + UG, shapes="{Kite}", ax=[28],
                      b=[(0, 28), (0, 14), (9, 12), (12, 16)] + ([(15, 20), (0, 20)] if th else []),
                      site=[-4, -3, -1, 0, 2, 3] + ([-2, 1, 4] if th else []), orient=list(range(1, 17)),
                      invs=["ModelOK", "EmitPlacements"]))
    elif pid == "C15":
        P.append(dict(tag="site", groups=G7 + UG, shapes="{Circle}", ax=[40], b=[(0, 40)], D=16,
                      site=[-24, -17, -16, -12, -9, -8, -7, -4, -1, 0, 1, 3, 7, 8, 9, 12, 16, 17, 23, 24]
                      if not th else list(range(-24, 25)),
                      orient=list(range(1, 17)), invs=["ModelOK", "EmitPlacements"]))
    return P


TITLE = {"C01": "a scored hard packing has no overlap anywhere in the tiling",
         "C02": "the hard score is the true packing fraction",
         "C04": "every crystal has the symmetry of its group",
         "C15": "each site yields the group's copies once each in one canonical cell"}


def finish(pid, tier, seed, t0, coverage, failures, assumptions, level="model_checking"):
    """failures: list of (what, state_json) -> VIOLATION / KNOWN-FINDING handling."""
    violations = []
    known = set()
    for what, state in failures:
        text = what + " " + json.dumps(state, sort_keys=True)
        fnd = vp.match_finding(pid, text)
        if fnd:
            known.add("KNOWN-FINDING: property=%s %s" % (pid, fnd["what"]))
        else:
            violations.append((what, state))
    rp = None
    if violations:
        rp = vp.save_replay(pid, "%s_seed%d" % (tier, seed),
                            {"property": pid, "tier": tier, "seed": seed,
                             "failures": [{"what": w, "state": s} for w, s in violations[:50]],
                             "how": "each `state` is a line printed by TLC (spec state + exact expected observables); "
                                    "`check %s --replay <this file>` runs the real code on them again" % pid})
    vp.write_evidence(pid, tier, seed, level, coverage, time.time() - t0, len(violations), assumptions)
    for k in sorted(known):
        print(k)
    if violations:
        print("VIOLATION property=%s replay=%s" % (pid, rp))
        for w, s in violations[:5]:
            vp.log("  %s: %s" % (w, json.dumps(s)[:400]))
        return 1
    return 0


def crystal_check(ctx):
    pid, tier, seed, t0 = ctx["pid"], ctx["tier"], ctx["seed"], ctx["t0"]
    vp.build_harness()
    if ctx.get("replay"):
        return crystal_replay_file(ctx)
    states = transitions = emitted = 0
    checked = nontrivial = skipped = 0
    crit = {"k1": 0, "k2": 0, "k3": 0}
    failures = []
    samples = []
    runs = []
    multi = 0
    for p in plans(pid, tier):
        r = crystal_run("%s_%s" % (pid, p["tag"]), p["groups"], p["shapes"], p["ax"], p["b"], p["site"],
                        p["orient"], p["invs"], D=p.get("D", 8), timeout=p.get("timeout", 6000 if tier == "thorough" else 3000))
        if r.get("error") or r["violations"]:
            vp.log("TOOL-ERROR: TLC on Crystal (%s): %s %s" % (p["tag"], r.get("error"), r["violations"]))
            vp.log(r["text_tail"][-1500:])
            return 2
        states += r["distinct"]
        transitions += r["generated"]
        emitted += r["n_emitted"]
        res = replay("crystal", r)
        t = res[pid]
        multi += res.get("multi_site_lines", 0)
        checked += t["checked"]
        nontrivial += t["nontrivial"]
        skipped += t["skipped"]
        for k in crit:
            crit[k] += res["critical"][k]
        for f in t["first_failures"]:
            failures.append((f["what"], f.get("state")))
        if t["failures"] > len(t["first_failures"]):
            vp.log("  (%d further failures not listed)" % (t["failures"] - len(t["first_failures"])))
        with open(r["ndjson"]) as fh:
            samples.append(json.loads(fh.readline()))
        runs.append({"enumeration": p["tag"], "sets": r["defs"], "distinct_states": r["distinct"],
                     "replayed": r["n_emitted"], "tlc_wall_s": round(r["wall"], 1)})
    area_res = None
    if pid == "C02":
        area_res = trimer_areas(tier)
        if area_res is None:
            return 2
        for f in area_res["first_failures"]:
            failures.append((f["what"], f.get("state")))
        states += area_res["tlc"]["distinct"]
        transitions += area_res["tlc"]["generated"]
        emitted += area_res["checked"]
        nontrivial += area_res["checked"]
    edges = None
    if pid == "C15":
        # floating-point edge inputs off every grid (one ulp either side of +-1/2, -0.0, 1e-17,
        # coordinates beyond the cell): the postcondition of Placements evaluated in floating point
        d = os.path.join(vp.WORK, "C15_edges")
        os.makedirs(d, exist_ok=True)
        vp.pvh(["site-edges", "--out", os.path.join(d, "edges.json")])
        er = json.load(open(os.path.join(d, "edges.json")))
        for f in er["first_failures"]:
            failures.append(("float-edge site: " + f["what"], f["state"]))
        edges = {"float_edge_sites_checked": er["checked"]}
        emitted += er["checked"]
        nontrivial += er["checked"]
    c04 = None
    if pid == "C04":
        import opt_checks
        tr = opt_checks.aux_trace_check("C04", ["C04Frozen"], [], "real,edited,saveload", tier, seed)
        if tr["errors"]:
            vp.log("TOOL-ERROR: trace validation failed on", tr["errors"])
            return 2
        failures.extend(tr["failures"])
        d = os.path.join(vp.WORK, "C04_hist")
        os.makedirs(d, exist_ok=True)
        vp.pvh(["c04-histories", "--out", os.path.join(d, "hist.json"), "--tier", tier, "--seed", str(seed)], timeout=3000)
        hres = json.load(open(os.path.join(d, "hist.json")))
        for f in hres["first_failures"]:
            failures.append((f["what"], f["state"]))
        c04 = {"optimiser_runs_validated": tr["runs"], "events": tr["events"], "formula": "C04Frozen",
               "optimised_states_symmetry_residual": {k: v for k, v in hres.items() if k != "first_failures"}}
        states += tr["states"]
        emitted += tr["runs"]
    hist = None
    proof = None
    if pid == "C01":
        hist = c01_histories(tier, seed)
        for f in hist["failures"]:
            failures.append(f)
        proof = tlaps_shell_bound()
        if not proof["proved"]:
            # the proof does not depend on /repo: a prover time-out says nothing about the code; TLC
            # still checks the consequence (ShellBoundOK) on every thorough state
            vp.log("NOTE: TLAPS did not re-prove spec/proofs/ShellBound.tla in this run (prover time-out?):", proof)
    if emitted == 0 or nontrivial == 0:
        vp.log("TOOL-ERROR: nothing replayed")
        return 2
    coverage = {"states": states, "transitions": transitions,
                "traces_validated_against_impl": emitted + (hist["histories"] if hist else 0),
                "samples": samples[:3],
                "replayed_states": emitted, "asserted_on": nontrivial, "not_asserted": skipped,
                "rule": {"C01": "asserted_on = grid states whose exact lattice verdict is overlap (the code must not score them); critical_k = such states whose nearest overlapping image lies beyond k shells",
                         "C02": "asserted_on = grid states whose exact verdict is apart (score must equal copies*area/cell area); touching states and lens-shaped molecules are not asserted",
                         "C04": "asserted_on = every state: real cartesian placements (hard and LJ) equal the model crystal, which TLC shows symmetric (invariant Symmetric)",
                         "C15": "asserted_on = every state: real relative placements (hard and LJ) equal the copies of the site, inside [-1/2,1/2)^2"}[pid],
                "critical_states": crit, "enumerations": runs, "exhaustive": True,
                "multi_site": {"states_replayed_as_p1_with_one_site_per_copy": multi,
                               "rule": "Crystal!AsSites: for every state whose shape is its own mirror image or whose group has proper operations only (TLC: SitesLemma), the real code is run a second time on the p1 description with N occupied sites; verdict, score and placements must be those of the one-site description"}}
    if multi == 0:
        vp.log("TOOL-ERROR: no state was replayed in its multi-site description")
        return 2
    if edges:
        coverage["float_edges"] = edges
    if c04:
        coverage["optimised"] = c04
    if area_res:
        coverage["shape_areas"] = {k: v for k, v in area_res.items() if k not in ("first_failures", "tlc")}
    if proof:
        coverage["tlaps_shell_bound"] = proof
    if hist:
        coverage["histories"] = {k: v for k, v in hist.items() if k != "failures"}
    if pid == "C01" and crit["k3"] == 0:
        vp.log("TOOL-ERROR: the enumeration contains no state critical for a 3-shell search (vacuous for shell-count defects)")
        return 2
    rc = finish(pid, tier, seed, t0, coverage, failures,
                ["exhaustive on the stated rational grids only; off-grid states are reached through recorded optimisation histories (C01) and the optimiser checks",
                 "touching configurations (boundaries meet, interiors disjoint) are never asserted either way",
                 "the harness converts integers to f64 (cell length, ratio, angle via sqrt/atan2): every asserted verdict has a margin far above the 1e-15 this costs"])
    vp.log("[%s] %s: %d grid states replayed, %d asserted, critical %s, %.0fs"
           % (pid, TITLE[pid], emitted, nontrivial, crit, time.time() - t0))
    return rc


def tlaps_shell_bound():
    """The lemma behind Crystal!KN / KM (an image that is not `Far` lies within the shells the
    lattice verdict searches), proved for all integers with TLAPS; re-checked from scratch."""
    import re
    import shutil
    import subprocess
    d = os.path.join(vp.WORK, "C01_tlaps")
    shutil.rmtree(d, ignore_errors=True)
    os.makedirs(d)
    shutil.copy(os.path.join(vp.SPEC, "proofs", "ShellBound.tla"), d)
    t0 = time.time()
    last = {"module": "spec/proofs/ShellBound.tla", "proved": False, "error": "not run"}
    # the back-end provers run under time limits of their own: on a loaded machine an obligation can
    # time out, so the proof is retried with longer limits (obligations already proved are kept)
    for attempt, stretch in enumerate(("1", "4", "12")):
        try:
            args = ["timeout", "1500", "tlapm", "--threads", "4", "--stretch", stretch]
            if attempt == 0:
                args += ["--cleanfp"]
            r = subprocess.run(args + ["ShellBound.tla"], cwd=d, stdout=subprocess.PIPE, stderr=subprocess.STDOUT, text=True)
            m = re.search(r"All (\d+) obligations proved", r.stdout)
            failed = re.search(r"(\d+)/(\d+) obligations failed", r.stdout)
            last = {"module": "spec/proofs/ShellBound.tla", "theorems": ["RowBound", "ColBound", "ShellBound"],
                    "proved": bool(m), "obligations": int(m.group(1)) if m else (int(failed.group(2)) if failed else 0),
                    "failed": int(failed.group(1)) if failed else 0, "attempts": attempt + 1, "wall_s": round(time.time() - t0, 1)}
            if m:
                break
        except Exception as e:  # noqa
            last = {"module": "spec/proofs/ShellBound.tla", "proved": False, "error": str(e)}
    return last


def trimer_areas(tier):
    """Trimer parameter cases enumerated and classified exactly by TLC (spec/Trimer.tla); area()
    of the real shape against the exact multiple of pi / the arc-integration oracle; polygons
    against the shoelace area of their own vertices."""
    th = tier == "thorough"
    defs = {"GR": vp.tla_set([1, 2, 4, 5, 6, 8, 10, 12, 15] + ([3, 7, 9, 11, 14, 20] if th else [])),
            "GD": vp.tla_set([2, 4, 5, 6, 8, 10, 12, 15, 20, 30] + ([1, 3, 7, 9, 11, 14, 17, 25] if th else [])),
            "GA": vp.tla_set([1, 2, 3, 4, 5, 6, 7, 8])}
    cfg = "SPECIFICATION Spec\nCONSTANTS\n  Q = 10\n  RSet <- GR\n  DSet <- GD\n  AngleSet <- GA\nINVARIANTS ModelOK Emit\nCHECK_DEADLOCK FALSE\n"
    r = vp.run_tlc("GenTrimer", cfg, "C02_trimer", workers=4, timeout=1200,
                   root_text=vp.gen_module("GenTrimer", "MC_Trimer", defs))
    if r.get("error") or r["violations"]:
        vp.log("TOOL-ERROR: TLC on Trimer: %s %s" % (r.get("error"), r["violations"]))
        return None
    nd = os.path.join(r["dir"], "emitted.ndjson")
    vp.extract_emitted(r["out"], nd)
    res = os.path.join(r["dir"], "result.json")
    vp.pvh(["areas", "--in", nd, "--out", res])
    out = json.load(open(res))
    if out["oracle_disagrees_with_tlc"]:
        vp.log("TOOL-ERROR: the union-area oracle disagrees with TLC's exact areas on %d cases" % out["oracle_disagrees_with_tlc"])
        return None
    out["tlc"] = {"distinct": r["distinct"], "generated": r["generated"]}
    return out


def c01_histories(tier, seed):
    """Real optimisation histories: every scored proposal is re-checked by an exhaustive oracle
    (shells from the ShellBound lemma of Crystal.tla) inside the harness; the oracle itself is
    calibrated against TLC's exact verdicts on the grid (`pvh crystal` compares both)."""
    out = os.path.join(vp.WORK, "C01_hist")
    os.makedirs(out, exist_ok=True)
    res = os.path.join(out, "hist.json")
    vp.pvh(["c01-histories", "--out", res, "--tier", tier, "--seed", str(seed)], timeout=3000)
    r = json.load(open(res))
    r["failures"] = [(f["what"], f["state"]) for f in r.pop("first_failures", [])]
    return r


def crystal_replay_file(ctx):
    pid = ctx["pid"]
    rp = json.load(open(ctx["replay"]))
    d = os.path.join(vp.WORK, pid + "_replay")
    os.makedirs(d, exist_ok=True)
    nd = os.path.join(d, "emitted.ndjson")
    with open(nd, "w") as f:
        for x in rp["failures"]:
            if x.get("state"):
                f.write(json.dumps(x["state"]) + "\n")
    kind = "pairs" if pid == "C12" else "crystal"
    res = os.path.join(d, "result.json")
    vp.pvh([kind, "--in", nd, "--out", res])
    t = json.load(open(res))[pid]
    if t["failures"]:
        print("VIOLATION property=%s replay=%s" % (pid, ctx["replay"]))
        for f in t["first_failures"][:5]:
            vp.log("  %s: %s" % (f["what"], json.dumps(f.get("observed"))[:300]))
        return 1
    vp.log("replay: the real code now agrees with the specification on all %d recorded states" % t["checked"])
    return 0


# ------------------------------------------------------------------------------------------
def pairs_check(ctx):
    pid, tier, seed, t0 = ctx["pid"], ctx["tier"], ctx["seed"], ctx["t0"]
    vp.build_harness()
    if ctx.get("replay"):
        return crystal_replay_file(ctx)
    th = tier == "thorough"
    plans_ = [
        dict(tag="poly", shapes="PolyShapes", orient=[1, 2, 3, 5, 6, 13] + ([4, 7, 9, 14, 16] if th else []),
             mirror=[False, True], off=list(range(-10, 11, 2)) if not th else list(range(-10, 11)), G=4),
        dict(tag="disc", shapes="DiscShapes", orient=[1, 2, 3, 5, 13] + ([6, 9, 15] if th else []),
             mirror=[False, True], off=list(range(-12, 13, 3)) if not th else list(range(-14, 15, 2)), G=2),
    ]
    states = transitions = emitted = 0
    tally = {"checked": 0, "nontrivial": 0, "touch_not_asserted": 0, "overlap": 0, "apart": 0}
    failures = []
    samples = []
    runs = []
    for p in plans_:
        defs = {"GShapes": p["shapes"], "GOr": vp.tla_set(p["orient"]), "GMir": vp.tla_set(p["mirror"]),
                "GOff": vp.tla_set(p["off"])}
        name = "GenPairs_" + p["tag"]
        cfg = ("SPECIFICATION Spec\nCONSTANTS\n  U = 10\n  G = %d\n  ShapeSet <- GShapes\n  OrientSet <- GOr\n"
               "  MirrorSet <- GMir\n  OffSet <- GOff\nINVARIANTS ModelOK Emit\nCHECK_DEADLOCK FALSE\n" % p["G"])
        r = vp.run_tlc(name, cfg, "C12_" + p["tag"], workers=16, timeout=3000, xmx="12g", deque=False,
                       root_text=vp.gen_module(name, "MC_Pairs", defs))
        if r.get("error") or r["violations"]:
            vp.log("TOOL-ERROR: TLC on Pairs: %s %s" % (r.get("error"), r["violations"]))
            vp.log(r["text_tail"][-1500:])
            return 2
        nd = os.path.join(r["dir"], "emitted.ndjson")
        n = vp.extract_emitted(r["out"], nd)
        r["ndjson"] = nd
        states += r["distinct"]
        transitions += r["generated"]
        emitted += n
        t = replay("pairs", r)["C12"]
        for k in tally:
            tally[k] += t[k]
        for f in t["first_failures"]:
            failures.append((f["what"] + " answers=" + json.dumps(f.get("observed")), f.get("state")))
        with open(nd) as fh:
            samples.append(json.loads(fh.readline()))
        runs.append({"enumeration": p["tag"], "sets": defs, "distinct_states": r["distinct"], "replayed": n,
                     "tlc_wall_s": round(r["wall"], 1)})
    if emitted == 0:
        return 2
    # shapes and placements off every rational grid: recorded pairs judged by PairsJudge.tla
    jd = os.path.join(vp.WORK, "C12_judge")
    os.makedirs(jd, exist_ok=True)
    obs = os.path.join(jd, "pairs.ndjson")
    vp.pvh(["pairs-obs", "--out", obs, "--tier", tier, "--seed", str(seed)], timeout=3000)
    jcfg = "SPECIFICATION Spec\nINVARIANTS C12Judge EmitVerdict\nPOSTCONDITION Accepted\nCHECK_DEADLOCK FALSE\n"
    jr = vp.run_tlc("PairsJudge", jcfg, "C12_judge_tlc", env={"TRACE": obs}, workers=1, timeout=3000, xmx="4g")
    if jr.get("error") and not jr["violations"]:
        vp.log("TOOL-ERROR: PairsJudge:", jr["error"], jr["text_tail"][-1200:])
        return 2
    judged = {"overlap": 0, "apart": 0, "undecided": 0}
    with open(jr["out"], errors="replace") as fh:
        for line in fh:
            if line.startswith('<<"VERDICT"'):
                for k in judged:
                    if '"%s"' % k in line:
                        judged[k] += 1
    obs_lines = open(obs).read().splitlines()
    if jr["violations"]:
        bad = json.loads(obs_lines[min(jr["depth"], len(obs_lines) - 1)])
        failures.append(("recorded pair (%s, distance %.4f): real answers contradict the exact verdict with margin" % (bad["shape"], bad["d"]), bad))
    elif jr["not_consumed"]:
        vp.log("TOOL-ERROR: PairsJudge did not consume the log")
        return 2
    states += jr["distinct"]
    transitions += jr["generated"]
    samples.append(json.loads(obs_lines[1]))
    # polygons with many sides: shallow corner-into-edge overlaps are below the resolution of the
    # rounded grid; judged by the exact separating-axis value of the real outlines in f64
    mres = os.path.join(jd, "many.json")
    vp.pvh(["pairs-many", "--out", mres, "--tier", tier, "--seed", str(seed)], timeout=3000)
    many = json.load(open(mres))
    for f in many["first_failures"][:3]:
        failures.append((f["what"], f.get("state")))
    coverage = {"states": states, "transitions": transitions, "traces_validated_against_impl": emitted + len(obs_lines) - 1,
                "recorded_pairs_judged": {"records": len(obs_lines) - 1, "verdicts": judged,
                                          "shapes": "regular 3,4,5,6,7,8,12-gons, three radial polygons, circle, five trimers incl. the CLI default; random orientations, mirror images, distances bracketing the implementation's own contact distance"},
                "many_sided_polygons": {"pairs": many["checked"], "asserted": many["asserted"],
                                        "rule": "24- to 96-gons: a corner pushed into the middle of an edge by fractions of the sagitta, random placements around contact; f64 separating-axis oracle, verdicts beyond 1e-7"},
                "samples": samples, "replayed_states": emitted, "asserted_on": tally["nontrivial"],
                "verdicts": tally, "enumerations": runs, "exhaustive": True,
                "rule": "every grid configuration of two copies (offsets, 3-4-5 / 5-12-13 orientations, mirror images) is replayed; "
                        "10 real answers per configuration (5 common rigid motions/reflections x both argument orders) must equal TLC's exact verdict unless it is `touch`"}
    rc = finish(pid, tier, seed, t0, coverage, failures,
                ["exhaustive on the rational grid: squares, radial kites, circle, collinear trimers; other n-gons and bent trimers are covered by the rounded-grid judge of recorded pairs (C12 histories) only",
                 "touch is never asserted"])
    vp.log("[C12] pairwise overlap vs exact geometry: %d configurations, %s, %.0fs" % (emitted, tally, time.time() - t0))
    return rc


# ------------------------------------------------------------------------------------------
def tables_check(ctx):
    pid, tier, seed, t0 = ctx["pid"], ctx["tier"], ctx["seed"], ctx["t0"]
    vp.build_harness()
    d = os.path.join(vp.WORK, "C16")
    os.makedirs(d, exist_ok=True)
    tables = os.path.join(d, "tables.json")
    if ctx.get("replay"):
        tables = json.load(open(ctx["replay"]))["files"][0]
    else:
        vp.pvh(["tables", "--out", tables])
    cfg = "SPECIFICATION Spec\nINVARIANTS Closed TableOK ReferenceOK Emit\nCHECK_DEADLOCK FALSE\n"
    r = vp.run_tlc("MC_Wallpaper", cfg, "C16_tlc", env={"TABLES": tables}, workers=1, timeout=600)
    if r.get("error") and not r["violations"]:
        vp.log("TOOL-ERROR:", r["error"], r["text_tail"][-1500:])
        return 2
    impl = json.load(open(tables))
    nd = os.path.join(r["dir"], "emitted.ndjson")
    n = vp.extract_emitted(r["out"], nd)
    samples = [json.loads(l) for l in open(nd).read().splitlines()[:3]]
    samples.append({"implementation_tables": {g: impl[g]["strings"] for g in impl}})
    coverage = {"states": max(r["distinct"], 1), "transitions": max(r["generated"], 1),
                "traces_validated_against_impl": len(impl), "samples": samples,
                "exhaustive": True,
                "rule": "one state per (group, operation reachable by composing listed operations): the Cayley graph of every implementation table; "
                        "invariants: closure, and on each table identity / inverses / order / mirror-glide-two-fold content / family invariance / equality with the reference general positions modulo the lattice"}
    failures = []
    if r["violations"]:
        names = [nme for _, nme in r["violations"]]
        failures.append(("invariant %s of MC_Wallpaper fails on the implementation's tables" % names[0],
                         {"tables": {g: impl[g]["strings"] for g in impl},
                          "families": {g: impl[g]["family"] for g in impl}}))
    violations = []
    for what, state in failures:
        if not vp.match_finding(pid, what + json.dumps(state)):
            violations.append((what, state))
    rp = None
    if violations:
        rp = vp.save_replay(pid, "tables_seed%d" % seed, {"property": pid, "failures": [{"what": w, "state": s} for w, s in violations]},
                            files=[tables])
    vp.write_evidence(pid, tier, seed, "model_checking", coverage, time.time() - t0, len(violations),
                      ["the tables are read through get_wallpaper_group -> WyckoffSite::new (the parser is C17's business and is on this path too)"])
    if violations:
        print("VIOLATION property=%s replay=%s" % (pid, rp))
        vp.log("  " + violations[0][0])
        return 1
    vp.log("[C16] group tables: %d Cayley-graph states, all axioms hold, %.0fs" % (r["distinct"], time.time() - t0))
    return 0


def parser_check(ctx):
    pid, tier, seed, t0 = ctx["pid"], ctx["tier"], ctx["seed"], ctx["t0"]
    vp.build_harness()
    th = tier == "thorough"
    d = os.path.join(vp.WORK, "C17")
    os.makedirs(d, exist_ok=True)
    if ctx.get("replay"):
        rp = json.load(open(ctx["replay"]))
        nd = os.path.join(d, "replay.ndjson")
        with open(nd, "w") as f:
            for x in rp["failures"]:
                f.write(json.dumps(x["state"]) + "\n")
        res = os.path.join(d, "replay_result.json")
        vp.pvh(["parser", "--in", nd, "--out", res])
        t = json.load(open(res))["C17"]
        if t["failures"]:
            print("VIOLATION property=%s replay=%s" % (pid, ctx["replay"]))
            return 1
        return 0
    defs = {"GDig": vp.tla_set(list(range(10)) if th else [0, 1, 2, 3, 9]),
            "GDen": vp.tla_set(list(range(10)) if th else [0, 2, 3, 4, 9]),
            "GPart": vp.tla_set([1, 2, 3] if th else [1, 3]),
            "GVar": "{<<FALSE, 0, FALSE>>, <<TRUE, 1, FALSE>>, <<FALSE, 2, TRUE>>, <<FALSE, 3, FALSE>>, <<FALSE, 4, TRUE>>, <<TRUE, 5, FALSE>>, <<FALSE, 6, TRUE>>"
                    + (", <<TRUE, 0, TRUE>>, <<FALSE, 1, TRUE>>, <<TRUE, 6, FALSE>>}" if th else "}")}
    cfg = ("SPECIFICATION Spec\nCONSTANTS\n  Digits <- GDig\n  Denoms <- GDen\n  Partners <- GPart\n"
           "  Variants <- GVar\nINVARIANTS AutomatonCorrect Emit\nCHECK_DEADLOCK FALSE\n")
    r = vp.run_tlc("GenParser", cfg, "C17_grammar", workers=12, timeout=3000, xmx="12g", deque=False,
                   root_text=vp.gen_module("GenParser", "MC_Parser", defs))
    if r.get("error") or r["violations"]:
        # AutomatonCorrect failing is a defect of the transcribed design, reported as a tool error
        vp.log("TOOL-ERROR: TLC on Parser: %s %s" % (r.get("error"), r["violations"]))
        vp.log(r["text_tail"][-1500:])
        return 2
    nd = os.path.join(r["dir"], "emitted.ndjson")
    n1 = vp.extract_emitted(r["out"], nd)
    jcfg = "SPECIFICATION Spec\nCONSTANTS L = %d\nINVARIANTS Emit\nCHECK_DEADLOCK FALSE\n" % (4 if th else 3)
    rj = vp.run_tlc("MC_ParserJunk", jcfg, "C17_junk", workers=4, timeout=1200)
    if rj.get("error") or rj["violations"]:
        vp.log("TOOL-ERROR: TLC on ParserJunk", rj.get("error"))
        return 2
    ndj = os.path.join(rj["dir"], "emitted.ndjson")
    n2 = vp.extract_emitted(rj["out"], ndj)
    # TLA+ has no escapes for non-ASCII characters: the enumerator writes \uXXXX literally
    allnd = os.path.join(d, "all.ndjson")
    with open(allnd, "w") as o:
        o.write(open(nd).read())
        o.write(open(ndj).read().replace("\\\\u", "\\u"))
    res = os.path.join(d, "result.json")
    vp.pvh(["parser", "--in", allnd, "--out", res])
    t = json.load(open(res))["C17"]
    failures = [(f["what"], f.get("state")) for f in t["first_failures"]]
    samples = [json.loads(l) for l in open(allnd).read().splitlines()[5:8]] + \
              [json.loads(l) for l in open(allnd).read().splitlines()[-3:]]
    coverage = {"states": r["distinct"] + rj["distinct"], "transitions": r["generated"] + rj["generated"],
                "traces_validated_against_impl": n1 + n2, "samples": samples,
                "grammar_strings": n1, "other_strings": n2, "other_parsed": t["junk_parsed"],
                "other_rejected": t["junk_rejected"], "exhaustive": True,
                "rule": "grammar strings: every component (<=3 signed terms of distinct kinds, constants d or d/e over the digit sets) in either position with a fixed partner, "
                        "x lead-plus/spacing/parenthesis variants; TLC runs the transcribed character automaton over each (one state per character) and checks Automaton = Denote; "
                        "the real parser must return exactly Denote. other strings: every string up to length %d over a 19-symbol alphabet with junk (unknown letters, multi-byte characters, non-ASCII numeric characters); must not panic" % (4 if th else 3)}
    rc = finish(pid, tier, seed, t0, coverage, failures,
                ["bounded by the digit sets and the string length stated in `rule`"])
    vp.log("[C17] parser: %d grammar strings, %d other strings (%d parsed, %d rejected), %.0fs"
           % (n1, n2, t["junk_parsed"], t["junk_rejected"], time.time() - t0))
    return rc


def lattice_check(ctx):
    pid, tier, seed, t0 = ctx["pid"], ctx["tier"], ctx["seed"], ctx["t0"]
    vp.build_harness()
    if ctx.get("replay"):
        rp = json.load(open(ctx["replay"]))
        d = os.path.join(vp.WORK, "C14_replay")
        os.makedirs(d, exist_ok=True)
        nd = os.path.join(d, "replay.ndjson")
        with open(nd, "w") as f:
            for x in rp["failures"]:
                f.write(json.dumps(x["state"]) + "\n")
        res = os.path.join(d, "result.json")
        vp.pvh(["lattice", "--in", nd, "--out", res])
        if json.load(open(res))["C14"]["failures"]:
            print("VIOLATION property=%s replay=%s" % (pid, ctx["replay"]))
            return 1
        return 0
    th = tier == "thorough"
    defs = {"GFam": vp.tla_set(["Monoclinic", "Orthorhombic", "Hexagonal", "Tetragonal"]),
            "GAx": vp.tla_set([10, 25, 64] + ([7, 40] if th else [])),
            "GB": vp.tla_set([(0, 10), (0, 25), (15, 20), (12, 5), (5, 12), (32, 55), (-15, 20), (-5, 12), (1, 1000000), (-1, 2000000)] + ([(0, 64), (9, 12), (24, 7), (3, 4), (-24, 7)] if th else [])),
            "GFrac": vp.tla_set([-21, -8, -4, -1, 0, 3, 4, 6, 13] if th else [-21, -4, -1, 0, 3, 4, 6] + ([-16, -3, 1, 8, 20] if th else [])),
            "GOr": vp.tla_set([1, 5, 14] + ([2, 7, 11] if th else [])),
            "GK": vp.tla_set([0, 1, 2, 3] + ([4] if th else []))}
    cfg = ("SPECIFICATION Spec\nCONSTANTS\n  U = 10\n  D = 8\n  FamSet <- GFam\n  AxSet <- GAx\n  BSet <- GB\n"
           "  FracSet <- GFrac\n  OrientSet <- GOr\n  KSet <- GK\nINVARIANTS ModelOK Emit\nCHECK_DEADLOCK FALSE\n")
    r = vp.run_tlc("GenLattice", cfg, "C14_lattice", workers=16, timeout=3000, xmx="12g", deque=False,
                   root_text=vp.gen_module("GenLattice", "MC_Lattice", defs))
    if r.get("error") or r["violations"]:
        vp.log("TOOL-ERROR: TLC on Lattice: %s %s" % (r.get("error"), r["violations"]))
        vp.log(r["text_tail"][-1500:])
        return 2
    nd = os.path.join(r["dir"], "emitted.ndjson")
    n = vp.extract_emitted(r["out"], nd)
    res = os.path.join(r["dir"], "result.json")
    vp.pvh(["lattice", "--in", nd, "--out", res])
    t = json.load(open(res))["C14"]
    failures = [(f["what"], f.get("state")) for f in t["first_failures"]]
    with open(nd) as fh:
        sample = json.loads(fh.readline())
    sample["images"] = sample["images"][:4]
    coverage = {"states": r["distinct"], "transitions": r["generated"], "traces_validated_against_impl": n,
                "samples": [sample], "images_checked": t["images_checked"], "sets": defs, "exhaustive": True,
                "rule": "every (family label, cell, placement anywhere in the plane, orientation, shell count, zero flag) of the grid: "
                        "to_cartesian / _point / _isometry / _translate, periodic_images (as a multiset, orientation unchanged), area and corners against TLC's integers"}
    rc = finish(pid, tier, seed, t0, coverage, failures,
                ["rational cells only (3-4-5, 5-12-13, 32-55 and rectangular); the family is a label set through serde for all four families"])
    vp.log("[C14] lattice: %d states, %d images, %.0fs" % (n, t["images_checked"], time.time() - t0))
    return rc


def lj_check(ctx):
    pid, tier, seed, t0 = ctx["pid"], ctx["tier"], ctx["seed"], ctx["t0"]
    vp.build_harness()
    th = tier == "thorough"
    d = os.path.join(vp.WORK, "C13")
    os.makedirs(d, exist_ok=True)
    if ctx.get("replay"):
        rp = json.load(open(ctx["replay"]))
        nd = os.path.join(d, "replay.ndjson")
        with open(nd, "w") as f:
            for x in rp["failures"]:
                if isinstance(x["state"], dict) and ("qa" in x["state"] or "k" in x["state"]):
                    f.write(json.dumps(x["state"]) + "\n")
        res = os.path.join(d, "replay_result.json")
        vp.pvh(["lj", "--in", nd, "--out", res])
        if json.load(open(res))["C13"]["failures"]:
            print("VIOLATION property=%s replay=%s" % (pid, ctx["replay"]))
            return 1
        return 0
    qs = [(1, 2), (1, 1), (2, 1), (1, 3), (3, 4), (1, 8), (1, 20), (3, 2), (5, 1), (1, 64), (9, 16), (27, 64)]
    if th:
        qs += [(a, b) for a in range(1, 13) for b in range(1, 13) if (a, b) not in qs]
    cuts = [(0, 1), (1, 8), (1, 20), (1, 2), (3, 4), (1, 64), (1, 1)]
    if th:
        cuts += [(1, 3), (9, 16), (2, 1), (1, 30)]
    defs = {"GEps": vp.tla_set([(1, 2), (1, 1), (2, 1)] + ([(3, 2)] if th else [])),
            "GQ": vp.tla_set(qs), "GCut": vp.tla_set(cuts)}
    cfg = "SPECIFICATION Spec\nCONSTANTS\n  EpsSet <- GEps\n  QSet <- GQ\n  CutSet <- GCut\nINVARIANTS ModelOK Emit\nCHECK_DEADLOCK FALSE\n"
    r = vp.run_tlc("GenLJ", cfg, "C13_pair", workers=4, timeout=1200, root_text=vp.gen_module("GenLJ", "MC_LJ", defs))
    offs = [-4, -2, -1, 0, 1, 2, 3, 5] + ([-9, -6, 4, 7, 10] if th else [])
    mdefs = {"GOff": vp.tla_set(offs), "GC2": vp.tla_set([0, 6, 12] + ([30] if th else []))}
    mcfg = "SPECIFICATION Spec\nCONSTANTS\n  OffSet <- GOff\n  CutSet <- GC2\nINVARIANTS ModelOK Emit\nCHECK_DEADLOCK FALSE\n"
    rm = vp.run_tlc("GenLJMol", mcfg, "C13_mol", workers=8, timeout=1200, xmx="8g", deque=False,
                    root_text=vp.gen_module("GenLJMol", "MC_LJMol", mdefs))
    for x in (r, rm):
        if x.get("error") or x["violations"]:
            vp.log("TOOL-ERROR: TLC on LJ: %s %s" % (x.get("error"), x["violations"]))
            vp.log(x["text_tail"][-1500:])
            return 2
    nd1 = os.path.join(r["dir"], "emitted.ndjson")
    n1 = vp.extract_emitted(r["out"], nd1)
    nd2 = os.path.join(rm["dir"], "emitted.ndjson")
    n2 = vp.extract_emitted(rm["out"], nd2)
    allnd = os.path.join(d, "all.ndjson")
    with open(allnd, "w") as o:
        o.write(open(nd1).read())
        o.write(open(nd2).read())
    res = os.path.join(d, "result.json")
    vp.pvh(["lj", "--in", allnd, "--out", res])
    t = json.load(open(res))["C13"]
    failures = [(f["what"], f.get("state")) for f in t["first_failures"]]
    lines = open(allnd).read().splitlines()
    coverage = {"states": r["distinct"] + rm["distinct"], "transitions": r["generated"] + rm["generated"],
                "traces_validated_against_impl": n1 + n2,
                "samples": [json.loads(lines[0]), json.loads(lines[len(lines) // 3]), json.loads(lines[-1])],
                "pair_cases": n1, "by_cutoff_case": t["by_case"], "molecule_cases": n2,
                "unlike_pairs_checked_for_symmetry": t["unlike_pairs"], "real_energy_evaluations": t["evaluations"],
                "exhaustive": True,
                "rule": "pair law: every (eps, q, cutoff case) of the rational sets, realised at 4 sigmas x 4 rigid motions/reflections x 3 directions x both argument orders; "
                        "molecules: every pair of catalogue molecules x quarter turns x integer offsets, TLC lists the squared distances of all particle pairs"}
    rc = finish(pid, tier, seed, t0, coverage, failures,
                ["the value of the law for a listed squared distance is evaluated by the harness in f64 (TLC supplies the exact rational for single pairs and the pair structure for molecules)",
                 "unlike particles: only symmetry and distance-dependence are asserted (the property fixes no mixing rule)"])
    vp.log("[C13] LJ law: %d pair cases %s, %d molecule cases, %d unlike pairs, %.0fs"
           % (n1, t["by_case"], n2, t["unlike_pairs"], time.time() - t0))
    return rc


def ljscore_check(ctx):
    pid, tier, seed, t0 = ctx["pid"], ctx["tier"], ctx["seed"], ctx["t0"]
    vp.build_harness()
    th = tier == "thorough"
    if ctx.get("replay"):
        rp = json.load(open(ctx["replay"]))
        d = os.path.join(vp.WORK, "C03_replay")
        os.makedirs(d, exist_ok=True)
        nd = os.path.join(d, "replay.ndjson")
        n = 0
        with open(nd, "w") as f:
            for x in rp["failures"]:
                if isinstance(x.get("state"), dict) and "sum1" in x["state"]:
                    f.write(json.dumps(x["state"]) + "\n")
                    n += 1
        if n:
            res = os.path.join(d, "result.json")
            vp.pvh(["probe", "--in", nd, "--out", res])
            if json.load(open(res))["C03"]["failures"]:
                print("VIOLATION property=%s replay=%s" % (pid, ctx["replay"]))
                return 1
        vp.log("replay: grid failures re-run; random-state failures are reproduced by re-running the check with the same seed")
        return 0
    r = crystal_run("C03_probe", G7, "{Circle}",
                    ax=[12, 20, 30, 44] + ([16, 26, 60] if th else []),
                    b=[(0, 12), (0, 20), (0, 8), (9, 12), (12, 16), (6, 8), (0, 30)] + ([(15, 20), (5, 12), (0, 5)] if th else []),
                    site=[-4, -3, -1, 0, 2, 3] + ([-2, 1] if th else []), orient=[1], invs=["ProbeOK", "EmitProbe"])
    if r.get("error") or r["violations"]:
        vp.log("TOOL-ERROR: TLC on Crystal (probe): %s %s" % (r.get("error"), r["violations"]))
        vp.log(r["text_tail"][-1500:])
        return 2
    res = os.path.join(r["dir"], "result.json")
    vp.pvh(["probe", "--in", r["ndjson"], "--out", res])
    t = json.load(open(res))["C03"]
    failures = [(f["what"], f.get("state")) for f in t["first_failures"]]
    d = os.path.join(vp.WORK, "C03_sum")
    os.makedirs(d, exist_ok=True)
    sres = os.path.join(d, "ljsum.json")
    vp.pvh(["ljsum", "--out", sres, "--tier", tier, "--seed", str(seed)], timeout=3000)
    sm = json.load(open(sres))
    for f in sm["first_failures"]:
        failures.append((f["what"], f.get("state")))
    with open(r["ndjson"]) as fh:
        sample = json.loads(fh.readline())
    if t["nontrivial"] == 0:
        vp.log("TOOL-ERROR: no grid state has a pair inside the probe well")
        return 2
    coverage = {"states": r["distinct"], "transitions": r["generated"],
                "traces_validated_against_impl": r["n_emitted"] + sm["states_checked"],
                "samples": [sample] + sm["samples"][:2],
                "grid_states": r["n_emitted"], "well_evaluations_with_pairs_in_range": t["nontrivial"],
                "redescriptions_checked": t["redescriptions_checked"],
                "random_states_vs_direct_lattice_sum": {k: v for k, v in sm.items() if k not in ("first_failures", "samples")},
                "sets": r["defs"], "exhaustive": True,
                "rule": "grid: every state of the probe enumeration (7 groups x cells incl. thin and sheared x sites), two wells (range 2.5 and 4); the real PotentialState with the probe shape must report -OrderedSum/(2N) exactly as TLC computes it, "
                        "and TLC's re-descriptions (other orbit member, lattice shift, origin shift by half a lattice vector) must score the same with a real cut LJ particle. "
                        "random: cut LJ shapes in cells over the whole declared range (heights down to 0.06), score() vs a direct lattice sum with as many shells as the cutoff needs"}
    rc = finish(pid, tier, seed, t0, coverage, failures,
                ["the probe pair energy depends on the displacement of the molecule centres only; the particle-pair structure inside a molecule is C13's business",
                 "uncut potentials are not asserted beyond their truncated 3-shell sum (the property grants the convergence error)",
                 "the direct lattice sum is evaluated by the harness in f64 with LJShape2::energy as the pair law; its pair-counting is the one TLC's OrderedSum validates on the grid"])
    vp.log("[C03] LJ score: %d grid states (%d with pairs in range), %d re-descriptions, %d random states, %.0fs"
           % (r["n_emitted"], t["nontrivial"], t["redescriptions_checked"], sm["states_checked"], time.time() - t0))
    return rc


def output_check(ctx):
    pid, tier, seed, t0 = ctx["pid"], ctx["tier"], ctx["seed"], ctx["t0"]
    vp.build_harness()
    th = tier == "thorough"
    if ctx.get("replay"):
        rp = json.load(open(ctx["replay"]))
        d = os.path.join(vp.WORK, "C11_replay")
        os.makedirs(d, exist_ok=True)
        nd = os.path.join(d, "replay.ndjson")
        n = 0
        with open(nd, "w") as f:
            for x in rp["failures"]:
                if isinstance(x.get("state"), dict) and "uses" in x["state"]:
                    f.write(json.dumps(x["state"]) + "\n")
                    n += 1
        if n:
            res = os.path.join(d, "result.json")
            vp.pvh(["svg", "--in", nd, "--out", res])
            if json.load(open(res))["C11"]["failures"]:
                print("VIOLATION property=%s replay=%s" % (pid, ctx["replay"]))
                return 1
        return 0
    r = crystal_run("C11_svg", G7, "{Square, Quad, Circle, Trimer(5, 15)}",
                    ax=[28, 44] + ([20] if th else []),
                    b=[(0, 28), (0, 14), (9, 12), (12, 16)] + ([(15, 20)] if th else []),
                    site=[-4, -3, 0, 2, 4] + ([-1, 3] if th else []), orient=[1, 2, 5, 11, 14] + ([3, 7, 9, 16] if th else []),
                    invs=["ModelOK", "EmitSvg"])
    if r.get("error") or r["violations"]:
        vp.log("TOOL-ERROR: TLC on Crystal (svg): %s %s" % (r.get("error"), r["violations"]))
        vp.log(r["text_tail"][-1500:])
        return 2
    res = os.path.join(r["dir"], "result.json")
    vp.pvh(["svg", "--in", r["ndjson"], "--out", res])
    t = json.load(open(res))["C11"]
    failures = [(f["what"], f.get("state")) for f in t["first_failures"]]
    d = os.path.join(vp.WORK, "C11_json")
    os.makedirs(d, exist_ok=True)
    jres = os.path.join(d, "json.json")
    vp.pvh(["json-random", "--out", jres, "--tier", tier, "--seed", str(seed)], timeout=3000)
    jr = json.load(open(jres))
    for f in jr["first_failures"]:
        failures.append((f["what"], f.get("state")))
    import opt_checks
    tr = opt_checks.aux_trace_check("C11", ["C11SameDone", "C11Fresh"], ["C11Same"], "saveload", tier, seed)
    if tr["errors"]:
        vp.log("TOOL-ERROR: trace validation failed on", tr["errors"])
        return 2
    failures.extend(tr["failures"])
    with open(r["ndjson"]) as fh:
        sample = json.loads(fh.readline())
    coverage = {"states": r["distinct"] + tr["states"], "transitions": r["generated"],
                "traces_validated_against_impl": r["n_emitted"] + tr["runs"],
                "samples": [sample],
                "svg_grid_states": r["n_emitted"], "use_elements_checked": t["use_elements_checked"],
                "json_roundtrips_on_grid_states": t["json_roundtrips"],
                "several_site_states_drawn_and_roundtripped": t.get("several_site_states", 0),
                "json_roundtrips_on_random_finite_values": jr["states_checked"],
                "saveload_continuation_runs_validated": tr["runs"], "saveload_events": tr["events"],
                "sets": r["defs"], "exhaustive": True,
                "rule": "svg: every grid state (7 groups, 4 shapes, rectangular and sheared cells, rational orientations), as hard and as LJ state: the <use href=#mol> matrices must be TLC's placements and their 8 nearest images as a multiset, the <use href=#cell> ones the 9 lattice translations; the same for the p1 description with one occupied site per copy (Crystal!AsSites), hard and LJ; "
                        "json: score bits, placement bits and re-serialisation identical after one write/read; "
                        "continuation: stage 2 from the JSON copy must repeat stage 2 from the state itself evaluation by evaluation (TLC formulas C11Same, C11SameDone); every score of the reference continuation equals the score of a fresh copy of the state at that moment (C11Fresh)"}
    rc = finish(pid, tier, seed, t0, coverage, failures,
                ["float fidelity off the grid (17-digit values, subnormals, -0.0, 1e+-300) is driven by the harness and decided by bit equality; TLC cannot enumerate floats",
                 "the SVG is compared on the transforms it places the shape at, not on colours or view box"])
    vp.log("[C11] output: %d grid states (%d <use> elements), %d+%d JSON round trips, %d save/load runs, %.0fs"
           % (r["n_emitted"], t["use_elements_checked"], t["json_roundtrips"], jr["states_checked"], tr["runs"], time.time() - t0))
    return rc


REGISTRY = {"C11": output_check, "C03": ljscore_check, "C13": lj_check, "C14": lattice_check, "C17": parser_check, "C01": crystal_check, "C02": crystal_check, "C04": crystal_check, "C15": crystal_check,
            "C12": pairs_check, "C16": tables_check}
