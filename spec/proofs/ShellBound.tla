----------------------------- MODULE ShellBound -----------------------------
(***************************************************************************)
(* Machine-checked (TLAPS) proof of the lemma behind Crystal!KM and        *)
(* Crystal!KN: in a lattice with A = (ax, 0), B = (bx, by), a copy in the  *)
(* home cell and an image (n, m) of another copy whose centres are not     *)
(* `Far` apart (both coordinate differences at most two enclosing radii)   *)
(* satisfy |m| <= 2r div by + 1 and |n| <= 2r(|bx| + by) div (ax by) + 1.  *)
(* TLC checks the consequence (ShellBoundOK: two more shells change        *)
(* nothing) on every grid state; this is the reason it holds everywhere.   *)
(*                                                                         *)
(* Units as in Crystal.tla: fractional coordinates are numerators over D,  *)
(* f1 and f2 are the differences of two wrapped coordinates (|f| < D),     *)
(* world lengths are multiplied by D * H.                                  *)
(***************************************************************************)
EXTENDS Integers, TLAPS

Abs(x) == IF x < 0 THEN -x ELSE x

LEMMA MulLess == ASSUME NEW a \in Int, NEW b \in Int, NEW c \in Int, c > 0, a * c < b * c
                 PROVE a < b
  OBVIOUS

LEMMA MulMono == ASSUME NEW a \in Int, NEW b \in Int, NEW c \in Int, c > 0, a < b
                 PROVE a * c < b * c
  OBVIOUS

LEMMA AddLess == ASSUME NEW a \in Int, NEW b \in Int, NEW c \in Int, NEW d \in Int, a < b, c < d
                 PROVE a + c < b + d
  OBVIOUS

LEMMA DivBound == ASSUME NEW x \in Nat, NEW y \in Nat, y > 0
                  PROVE x < ((x \div y) + 1) * y
  OBVIOUS

LEMMA AbsNat == ASSUME NEW x \in Int PROVE Abs(x) \in Nat /\ Abs(x) >= x /\ Abs(x) >= -x
  BY DEF Abs

LEMMA DivNat == ASSUME NEW x \in Nat, NEW y \in Nat, y > 0 PROVE x \div y \in Nat
  OBVIOUS

THEOREM RowBound ==
  ASSUME NEW by \in Nat, by > 0, NEW r \in Nat, NEW D \in Nat, D > 0,
         NEW f2 \in Int, Abs(f2) < D, NEW m \in Int,
         Abs(f2 + m * D) * by <= 2 * r * D
  PROVE Abs(m) <= (2 * r) \div by + 1
<1> DEFINE q == (2 * r) \div by
<1> DEFINE t == Abs(f2 + m * D)
<1>0. q \in Nat /\ t \in Nat /\ Abs(m) \in Nat /\ Abs(f2) \in Nat
  <2>1. 2 * r \in Nat
    OBVIOUS
  <2>2. q \in Nat
    BY <2>1, DivNat
  <2>3. f2 + m * D \in Int
    OBVIOUS
  <2>4. t \in Nat
    BY <2>3, AbsNat
  <2>5. Abs(m) \in Nat /\ Abs(f2) \in Nat
    BY AbsNat
  <2> QED BY <2>2, <2>4, <2>5
<1>1. 2 * r < (q + 1) * by
  BY DivBound, 2 * r \in Nat
<1> HIDE DEF q, t
<1>2. t * by < ((q + 1) * D) * by
  <2>1. 2 * r * D < ((q + 1) * by) * D
    <3>1. (2 * r) * D < ((q + 1) * by) * D
      BY <1>0, <1>1, MulMono
    <3> QED BY <3>1, <1>0
  <2>2. ((q + 1) * by) * D = ((q + 1) * D) * by
    BY <1>0
  <2>3. t * by <= 2 * r * D
    BY DEF t
  <2> QED BY <2>1, <2>2, <2>3, <1>0
<1>3. t < (q + 1) * D
  BY <1>0, <1>2, MulLess
<1>4. Abs(m) * D <= t + Abs(f2)
  <2>1. Abs(m * D) <= Abs(f2 + m * D) + Abs(f2)
    BY DEF Abs
  <2>2. Abs(m * D) = Abs(m) * D
    BY D > 0 DEF Abs
  <2> QED BY <2>1, <2>2 DEF t
<1>5. Abs(m) * D < (q + 2) * D
  <2>0. (q + 1) * D \in Int /\ Abs(m) * D \in Int /\ (q + 2) * D \in Int
    BY <1>0
  <2>1. t + Abs(f2) < (q + 1) * D + D
    <3>1. t \in Int /\ Abs(f2) \in Int /\ D \in Int /\ (q + 1) * D \in Int
      BY <1>0, <2>0
    <3>2. Abs(f2) < D
      OBVIOUS
    <3> QED BY <3>1, <3>2, <1>3, AddLess
  <2>2. (q + 1) * D + D = (q + 2) * D
    BY <1>0
  <2> QED BY <1>4, <2>0, <2>1, <2>2, <1>0
<1>6. Abs(m) < q + 2
  BY <1>0, <1>5, MulLess
<1> QED BY <1>0, <1>6 DEF q

LEMMA MulMonoLe == ASSUME NEW a \in Int, NEW b \in Int, NEW c \in Nat, a <= b
                   PROVE a * c <= b * c
  OBVIOUS

LEMMA AbsMulNat == ASSUME NEW x \in Int, NEW c \in Nat PROVE Abs(x * c) = Abs(x) * c
  BY DEF Abs

LEMMA AbsNeg == ASSUME NEW x \in Int PROVE Abs(-x) = Abs(x)
  BY DEF Abs

LEMMA AbsMul == ASSUME NEW x \in Int, NEW y \in Int PROVE Abs(x * y) = Abs(x) * Abs(y)
<1>1. CASE y >= 0
  BY <1>1, AbsMulNat DEF Abs
<1>2. CASE y < 0
  <2>1. -y \in Nat /\ Abs(y) = -y
    BY <1>2 DEF Abs
  <2>2. x * y = (-x) * (-y)
    OBVIOUS
  <2>3. Abs((-x) * (-y)) = Abs(-x) * (-y)
    BY <2>1, AbsMulNat
  <2> QED BY <2>1, <2>2, <2>3, AbsNeg
<1> QED BY <1>1, <1>2

LEMMA Triangle == ASSUME NEW a \in Int, NEW b \in Int PROVE Abs(a) <= Abs(a + b) + Abs(b)
  BY DEF Abs

THEOREM ColBound ==
  ASSUME NEW ax \in Nat, ax > 0, NEW by \in Nat, by > 0, NEW bx \in Int, NEW r \in Nat,
         NEW D \in Nat, D > 0,
         NEW f1 \in Int, Abs(f1) < D, NEW f2 \in Int, NEW n \in Int, NEW m \in Int,
         Abs(f2 + m * D) * by <= 2 * r * D,
         Abs((f1 + n * D) * ax + (f2 + m * D) * bx) <= 2 * r * D
  PROVE Abs(n) <= (2 * r * (Abs(bx) + by)) \div (ax * by) + 1
<1> DEFINE u == f1 + n * D
           v == f2 + m * D
           bb == Abs(bx)
           P == ax * by
           Q == 2 * r * (bb + by)
           q == Q \div P
           R == 2 * r * D
<1>0. /\ u \in Int /\ v \in Int /\ bb \in Nat /\ P \in Nat /\ P > 0 /\ Q \in Nat /\ R \in Nat
      /\ Abs(u) \in Nat /\ Abs(v) \in Nat /\ Abs(n) \in Nat /\ Abs(f1) \in Nat
  <2>1. bb \in Nat /\ Abs(n) \in Nat /\ Abs(f1) \in Nat
    BY AbsNat
  <2>2. u \in Int /\ v \in Int
    OBVIOUS
  <2>3. Abs(u) \in Nat /\ Abs(v) \in Nat
    BY <2>2, AbsNat
  <2>4. P \in Nat /\ P > 0
    OBVIOUS
  <2>5. Q \in Nat /\ R \in Nat
    BY <2>1
  <2> QED BY <2>1, <2>2, <2>3, <2>4, <2>5
<1>q. q \in Nat /\ Q < (q + 1) * P
  BY <1>0, DivNat, DivBound
<1> HIDE DEF u, v, bb, P, Q, q, R
\* |u| ax <= R + |v| bb
<1>1. Abs(u) * ax <= R + Abs(v) * bb
  <2>1. Abs(u * ax) <= Abs(u * ax + v * bx) + Abs(v * bx)
    <3>1. u * ax \in Int /\ v * bx \in Int
      BY <1>0
    <3> QED BY <3>1, Triangle
  <2>2. Abs(u * ax) = Abs(u) * ax
    BY <1>0, AbsMulNat
  <2>3. Abs(v * bx) = Abs(v) * bb
    BY <1>0, AbsMul DEF bb
  <2>4. Abs(u * ax + v * bx) <= R
    BY DEF u, v, R
  <2>5. Abs(u * ax) \in Int /\ Abs(u * ax + v * bx) \in Int /\ Abs(v * bx) \in Int /\ R \in Int
    BY <1>0, AbsNat
  <2> QED BY <2>1, <2>2, <2>3, <2>4, <2>5
\* times by
<1>2. (Abs(u) * ax) * by <= (R + Abs(v) * bb) * by
  <2>1. Abs(u) * ax \in Int /\ R + Abs(v) * bb \in Int
    BY <1>0
  <2> QED BY <1>1, <2>1, MulMonoLe
<1>3. (Abs(v) * bb) * by <= R * bb
  <2>1. Abs(v) * by <= R
    BY DEF v, R
  <2>2. (Abs(v) * by) * bb <= R * bb
    <3>1. Abs(v) * by \in Int /\ R \in Int
      BY <1>0
    <3> QED BY <2>1, <3>1, <1>0, MulMonoLe
  <2>3. (Abs(v) * bb) * by = (Abs(v) * by) * bb
    BY <1>0
  <2> QED BY <2>2, <2>3
<1>4. Abs(u) * P <= Q * D
  <2>1. (Abs(u) * ax) * by = Abs(u) * P
    BY <1>0 DEF P
  <2>2. (R + Abs(v) * bb) * by = R * by + (Abs(v) * bb) * by
    BY <1>0
  <2>3. R * by + R * bb = Q * D
    BY <1>0 DEF R, Q
  <2>4. /\ Abs(u) * P \in Int /\ R * by \in Int /\ (Abs(v) * bb) * by \in Int /\ R * bb \in Int
        /\ Q * D \in Int /\ (R + Abs(v) * bb) * by \in Int
    BY <1>0
  <2> QED BY <1>2, <1>3, <2>1, <2>2, <2>3, <2>4
<1>5. Abs(u) * P < ((q + 1) * D) * P
  <2>1. Q * D < ((q + 1) * P) * D
    <3>1. (q + 1) * P \in Int
      BY <1>0, <1>q
    <3> QED BY <1>0, <1>q, <3>1, MulMono
  <2>2. ((q + 1) * P) * D = ((q + 1) * D) * P
    BY <1>0, <1>q
  <2>3. Abs(u) * P \in Int /\ Q * D \in Int /\ ((q + 1) * D) * P \in Int
    BY <1>0, <1>q
  <2> QED BY <1>4, <2>1, <2>2, <2>3
<1>6. Abs(u) < (q + 1) * D
  <2>1. (q + 1) * D \in Int
    BY <1>q
  <2> QED BY <1>0, <1>5, <2>1, MulLess
<1>7. Abs(n) * D <= Abs(u) + Abs(f1)
  <2>1. Abs(n * D) <= Abs(n * D + f1) + Abs(f1)
    <3>1. n * D \in Int
      OBVIOUS
    <3> QED BY <3>1, Triangle
  <2>2. Abs(n * D) = Abs(n) * D
    BY AbsMulNat
  <2>3. n * D + f1 = u
    BY DEF u
  <2> QED BY <2>1, <2>2, <2>3
<1>8. Abs(n) * D < (q + 2) * D
  <2>0. (q + 1) * D \in Int /\ Abs(n) * D \in Int /\ (q + 2) * D \in Int
    BY <1>0, <1>q
  <2>1. Abs(u) + Abs(f1) < (q + 1) * D + D
    <3>1. Abs(u) \in Int /\ Abs(f1) \in Int /\ D \in Int
      BY <1>0
    <3>2. Abs(f1) < D
      OBVIOUS
    <3> QED BY <3>1, <3>2, <2>0, <1>6, AddLess
  <2>2. (q + 1) * D + D = (q + 2) * D
    BY <1>q
  <2> QED BY <1>7, <2>0, <2>1, <2>2, <1>0
<1>9. Abs(n) < q + 2
  <2>1. q + 2 \in Int
    BY <1>q
  <2> QED BY <1>0, <1>8, <2>1, MulLess
<1> QED BY <1>0, <1>q, <1>9 DEF q, Q, P, bb

(* The statement in the vocabulary of Crystal.tla: f1, f2 are the differences of the wrapped   *)
(* fractional coordinates of two copies, H the denominator of the rotation, r = sh.renc; the   *)
(* hypotheses are the negation of Crystal!Far for the image (n, m).                            *)
LEMMA MulPos == ASSUME NEW a \in Nat, NEW b \in Nat, a > 0, b > 0 PROVE a * b \in Nat /\ a * b > 0
  OBVIOUS

LEMMA Unscale == ASSUME NEW H \in Nat, H > 0, NEW x \in Int, NEW R \in Nat, Abs(H * x) <= R * H
                 PROVE Abs(x) <= R
<1>1. Abs(H * x) = Abs(x) * H
  BY AbsMulNat
<1>2. Abs(x) \in Nat
  BY AbsNat
<1>3. CASE Abs(x) > R
  <2>1. R * H < Abs(x) * H
    BY <1>2, <1>3, MulMono
  <2>2. R * H \in Int /\ Abs(x) * H \in Int
    BY <1>2
  <2> QED BY <1>1, <2>1, <2>2
<1> QED BY <1>2, <1>3

THEOREM ShellBound ==
  ASSUME NEW ax \in Nat, ax > 0, NEW by \in Nat, by > 0, NEW bx \in Int, NEW r \in Nat,
         NEW D \in Nat, D > 0, NEW H \in Nat, H > 0,
         NEW f1 \in Int, Abs(f1) < D, NEW f2 \in Int, Abs(f2) < D, NEW n \in Int, NEW m \in Int,
         Abs(H * ((f2 + m * D) * by)) <= (2 * r * D) * H,
         Abs(H * ((f1 + n * D) * ax + (f2 + m * D) * bx)) <= (2 * r * D) * H
  PROVE /\ Abs(m) < (2 * r) \div by + 2
        /\ Abs(n) < (2 * r * (Abs(bx) + by)) \div (ax * by) + 2
<1>0. 2 * r * D \in Nat /\ (f2 + m * D) * by \in Int /\ (f1 + n * D) * ax + (f2 + m * D) * bx \in Int
      /\ f2 + m * D \in Int
  OBVIOUS
<1>1. Abs((f2 + m * D) * by) <= 2 * r * D
  BY <1>0, Unscale
<1>2. Abs((f1 + n * D) * ax + (f2 + m * D) * bx) <= 2 * r * D
  BY <1>0, Unscale
<1>3. Abs(f2 + m * D) * by <= 2 * r * D
  BY <1>0, <1>1, AbsMulNat
<1>4. Abs(m) <= (2 * r) \div by + 1
  BY <1>3, RowBound
<1>5. Abs(n) <= (2 * r * (Abs(bx) + by)) \div (ax * by) + 1
  BY <1>2, <1>3, ColBound
<1>6. Abs(m) \in Nat /\ Abs(n) \in Nat /\ (2 * r) \div by \in Nat
      /\ (2 * r * (Abs(bx) + by)) \div (ax * by) \in Nat
  <2>1. Abs(bx) \in Nat
    BY AbsNat
  <2> DEFINE bb == Abs(bx)
  <2>a. bb \in Nat
    BY <2>1
  <2> HIDE DEF bb
  <2>b. 2 * r * (bb + by) \in Nat
    BY <2>a
  <2>c1. ax * by \in Nat /\ ax * by > 0
    BY MulPos
  <2>c2. 2 * r \in Nat
    OBVIOUS
  <2>c. ax * by \in Nat /\ ax * by > 0 /\ 2 * r \in Nat
    BY <2>c1, <2>c2
  <2>2. 2 * r * (Abs(bx) + by) \in Nat /\ ax * by \in Nat /\ ax * by > 0 /\ 2 * r \in Nat
    BY <2>b, <2>c DEF bb
  <2>3. (2 * r) \div by \in Nat
    BY <2>2, DivNat
  <2>4. (2 * r * (Abs(bx) + by)) \div (ax * by) \in Nat
    BY <2>2, DivNat
  <2>5. Abs(m) \in Nat /\ Abs(n) \in Nat
    BY AbsNat
  <2> QED BY <2>3, <2>4, <2>5
<1> QED BY <1>4, <1>5, <1>6
=============================================================================
