------------------------------ MODULE Optimiser ------------------------------
(***************************************************************************)
(* The Monte-Carlo optimiser of pypacking (src/optimisation.rs) and the    *)
(* parameter handles it moves (src/basis.rs), as a state machine.          *)
(*                                                                         *)
(* One action per critical section of `optimise_state`:                    *)
(*   Begin    initial scoring, registers initialised                        *)
(*   Propose  choose a handle, remember its value, write a clamped sample   *)
(*   Eval     state.score() of the trial configuration                      *)
(*   Draw     the uniform draw of accept_score                              *)
(*   Accept / Reject   keep the trial / write the remembered value back     *)
(*   EndLoop  cool, convergence test (may return early), step adaptation    *)
(*   Final    validity check of the result, return                          *)
(*   Restart  a further optimisation stage or an unrelated run              *)
(*                                                                         *)
(* The module is used three ways: model-checked for small constants        *)
(* (MC_Optimiser), as the judge of recorded executions (OptimiserTrace),   *)
(* and as the source of accept/reject scripts replayed on the real code.   *)
(* Properties C05 C06 C07 C08 C18 C19 C20 of /verif/properties.jsonl are   *)
(* stated once, here.                                                      *)
(*                                                                         *)
(* Numbers.  Parameter values are opaque tokens; Fx(tok) is the magnitude  *)
(* in fixed point (identity in the bounded model).  Scores are ranks       *)
(* (order-isomorphic integers); Undef is the score of an invalid           *)
(* configuration, Bad that of a non-finite one.  A temperature is          *)
(* [cls |-> "zero" | "pos" | "bad", lvl |-> fixed-point log].              *)
(***************************************************************************)
EXTENDS Integers, Sequences, FiniteSets, TLC

CONSTANTS Undef,              \* score of an overlapping / invalid configuration
          Bad,                \* score that is defined but not finite (NaN)
          Fx(_),              \* magnitude of a value token
          MoveCap(_, _, _),   \* MoveCap(maxd, cap, capMax): largest move allowed at step ratio cap
          AdaptOK(_, _, _, _, _), \* AdaptOK(cap, cap2, rej, inner, capMax): admissible step adaptation
          SmallOK(_, _, _, _),\* SmallOK(small, cur, lstart, thr): is `small` the convergence verdict
          LandSet(_),         \* LandSet(vector): the scores the state's score function may return
          Tol,                \* slack of fixed-point comparisons (0 in the bounded model)
          ConvLimit,          \* 5: more than this many consecutive small loops end the run
          Variant,            \* "spec" or the name of a deliberately wrong design (see below)
          Configs,            \* configurations Begin / Restart may choose
          Values,             \* value tokens Propose may write
          Scores              \* defined, finite scores Eval may return

VARIABLES cfg,      \* configuration record of the current run
          val,      \* [1..n -> token]  the parameter cells, in handle order
          old,      \* [1..n -> token]  per handle: value saved by the last set_value
          cur,      \* score_current
          kt,       \* temperature
          cap,      \* step_ratio (fixed point, cfg.capMax = 1.0)
          rej,      \* loop_rejections
          conv,     \* convergence_count
          t,        \* steps done in this inner loop
          loop,     \* loop_counter
          pc,       \* "new" "propose" "eval" "draw" "decide" "endloop" "final" "done" "panic"
          idx,      \* handle of the proposal in flight
          new,      \* its score
          metro,    \* outcome of comparing the draw with exp(-d/kT): "yes" "no" "unsure"
          lstart,   \* score at the start of the loop
          imp,      \* verdict of the last finished loop: "small" "big" "na"
          early,    \* TRUE iff the run ended through the convergence exit
          fin,      \* {score seen by the final validity check}, {} before it / when skipped
          base,     \* ghost: vector before the proposal in flight
          lastAcc,  \* ghost: vector of the last accepted proposal (or the input)
          accCur,   \* ghost: score that went with lastAcc
          evals,    \* ghost: proposals evaluated in this run
          dl,       \* ghost: {log-decrement of the first cooling of this run}, or {}
          lastKt,   \* ghost: temperature that governed the most recent step
          stage,    \* ghost: 1 + number of Restarts that continued from the previous result
          hist,     \* ghost: <<vector, score>> of every evaluation of this run (if cfg.keepHist)
          ref       \* ghost: hist of the previous run, when this run must be a prefix of it

vars == <<cfg, val, old, cur, kt, cap, rej, conv, t, loop, pc, idx, new, metro, lstart, imp,
          early, fin, base, lastAcc, accCur, evals, dl, lastKt, stage, hist, ref>>

Max(a, b) == IF a >= b THEN a ELSE b
Min(a, b) == IF a <= b THEN a ELSE b
Abs(a) == IF a >= 0 THEN a ELSE -a

H(c) == 1..c.n
\* an inner loop has at least one step; more than `steps` is `steps`
Inner(c) == IF Variant = "innerAsWritten" THEN Min(c.innerReq, c.steps)
            ELSE Max(1, Min(c.innerReq, c.steps))
Loops(c) == IF Inner(c) = 0 THEN 0 ELSE c.steps \div Inner(c)

Defined(s) == s # Undef /\ s # Bad
Dist(a, b) == Abs(Fx(a) - Fx(b))
InRange(c, i, v) == Fx(v) >= c.lo[i] - Tol /\ Fx(v) <= c.hi[i] + Tol
KtZero == [cls |-> "zero", lvl |-> 0]
KtOf(c) == IF c.ktStart = "zero" THEN KtZero ELSE [cls |-> "pos", lvl |-> c.ktLvl]

-----------------------------------------------------------------------------
(* Cooling.  InWindow(k, k2, c): what the property allows after one       *)
(* cooling step from k.  CoolOK: what the modelled design does (the        *)
(* property, with one factor for the whole run; or a named wrong design).  *)
(* KtCandidates is only a finite superset for enumeration by TLC.           *)
\* Below this level (kT < 1e-282, fixed-point logarithm) a positive temperature is about to leave
\* the range of floating-point numbers: reaching zero from there, or losing the precision of the
\* decrement, is the arithmetic and not a change of schedule.
UnderflowLvl == -650000000
InWindow(k, k2, c) ==
  IF k.cls = "zero" THEN k2 = KtZero
  ELSE IF k.cls = "bad" THEN FALSE
  ELSE IF c.fzero THEN k2 = KtZero
  ELSE IF k.lvl <= UnderflowLvl THEN k2.cls \in {"pos", "zero"}
  ELSE /\ k2.cls = "pos"
       /\ c.anyFactor \/ (k2.lvl - k.lvl >= c.dlnLo - Tol /\ k2.lvl - k.lvl <= c.dlnHi + Tol)

KtBad == [cls |-> "bad", lvl |-> 0]

CoolOK(k, k2, c) ==
  CASE Variant = "factorAsWritten" /\ c.sched = "finish" ->
         \* exponent 1/steps although applied once per loop; inf/NaN from a zero start
         IF k.cls # "pos" \/ c.ktStart = "zero" THEN k2 = KtBad
         ELSE k2 = [cls |-> "pos", lvl |-> k.lvl + c.dlnAsWritten]
    [] Variant = "noCooling" -> k2 = k
    [] OTHER -> /\ InWindow(k, k2, c)
                \* one factor for the whole run: every cooling step repeats the first
                /\ (k.cls = "pos" /\ k2.cls = "pos" /\ k.lvl > UnderflowLvl) =>
                      \A d \in dl : Abs((k2.lvl - k.lvl) - d) <= Tol

KtCandidates(k, c) ==
  {KtZero, KtBad, k} \cup
  {[cls |-> "pos", lvl |-> k.lvl + d] : d \in ((c.dlnLo - Tol)..(c.dlnHi + Tol)) \cup {c.dlnAsWritten}}

-----------------------------------------------------------------------------
Init ==
  /\ cfg \in Configs
  /\ val \in [H(cfg) -> Values] /\ \A i \in H(cfg) : InRange(cfg, i, val[i])
  /\ old = val
  /\ cur = Undef /\ kt = KtOf(cfg) /\ cap = cfg.capMax
  /\ rej = 0 /\ conv = 0 /\ t = 0 /\ loop = 1 /\ pc = "new"
  /\ idx = 1 /\ new = Undef /\ metro = "no" /\ lstart = Undef /\ imp = "na" /\ early = FALSE
  /\ fin = {}
  /\ base = val /\ lastAcc = val /\ accCur = Undef /\ evals = 0 /\ dl = {}
  /\ lastKt = KtOf(cfg) /\ stage = 1 /\ hist = <<>> /\ ref = <<>>

\* let mut score_current = match state.score() { Some(s) => s, _ => panic!(..) }
Begin(s) ==
  /\ pc = "new"
  /\ s \in LandSet(val)
  /\ IF Defined(s)
     THEN /\ cur' = s /\ lstart' = s /\ accCur' = s
          /\ pc' = IF Loops(cfg) = 0 THEN "final" ELSE "propose"
          /\ UNCHANGED fin
     ELSE \* "Invalid configuration passed to function": the one documented panic
          /\ pc' = "panic" /\ fin' = {s} /\ UNCHANGED <<cur, lstart, accCur>>
  /\ UNCHANGED <<cfg, val, old, kt, cap, rej, conv, t, loop, idx, new, metro, imp, early,
                 base, lastAcc, evals, dl, lastKt, stage, hist, ref>>

\* basis[i].set_sampled(..): old := current; cell := clamp(sample)
Propose(i, v) ==
  /\ pc = "propose"
  /\ i \in H(cfg)
  /\ InRange(cfg, i, v)
  /\ Dist(v, val[i]) <= MoveCap(cfg.maxd[i], cap, cfg.capMax) + Tol
  /\ base' = val
  /\ old' = IF Variant = "staleOld" THEN old ELSE [old EXCEPT ![i] = val[i]]
  /\ val' = [val EXCEPT ![i] = v]
  /\ idx' = i
  /\ pc' = "eval"
  /\ lastKt' = kt
  /\ UNCHANGED <<cfg, cur, kt, cap, rej, conv, t, loop, new, metro, lstart, imp, early,
                 fin, lastAcc, accCur, evals, dl, stage, hist, ref>>

Eval(s) ==
  /\ pc = "eval"
  /\ s \in LandSet(val)
  /\ new' = s
  /\ evals' = evals + 1
  /\ hist' = IF cfg.keepHist THEN Append(hist, <<val, s>>) ELSE hist
  /\ pc' = "draw"
  /\ UNCHANGED <<cfg, val, old, cur, kt, cap, rej, conv, t, loop, idx, metro, lstart, imp,
                 early, fin, base, lastAcc, accCur, dl, lastKt, stage, ref>>

Draw(m) ==
  /\ pc = "draw"
  /\ metro' = m
  /\ pc' = "decide"
  /\ UNCHANGED <<cfg, val, old, cur, kt, cap, rej, conv, t, loop, idx, new, lstart, imp,
                 early, fin, base, lastAcc, accCur, evals, dl, lastKt, stage, hist, ref>>

(* The Metropolis rule.  MustAccept / MayAccept differ only on the          *)
(* indecision band of the draw ("unsure": |u - p| below the resolution of  *)
(* the projection) so that no step is judged on a rounding.                 *)
Better == Defined(new) /\ new >= cur
MustAccept == Better \/ (Defined(new) /\ kt.cls = "pos" /\ metro = "yes")
MayAccept  == Better \/ (Defined(new) /\ kt.cls = "pos" /\ metro \in {"yes", "unsure"})
              \/ (Variant = "acceptUndef" /\ new = Undef /\ kt.cls = "pos")
              \/ (Variant = "factorAsWritten" /\ Defined(new) /\ kt.cls = "bad")

AfterStep ==
  /\ t' = t + 1
  /\ pc' = IF t + 1 >= Inner(cfg) THEN "endloop" ELSE "propose"

Accept ==
  /\ pc = "decide"
  /\ MayAccept
  /\ cur' = new
  /\ lastAcc' = val /\ accCur' = new
  /\ AfterStep
  /\ UNCHANGED <<cfg, val, old, kt, cap, rej, conv, loop, idx, new, metro, lstart, imp, early,
                 fin, base, evals, dl, lastKt, stage, hist, ref>>

\* basis[i].reset_value(): cell := old
Reject ==
  /\ pc = "decide"
  /\ ~MustAccept
  /\ LET j == IF Variant = "resetOther" THEN (idx % cfg.n) + 1 ELSE idx
     IN val' = IF Variant = "noReset" THEN val ELSE [val EXCEPT ![j] = old[j]]
  /\ rej' = rej + 1
  /\ AfterStep
  /\ UNCHANGED <<cfg, old, cur, kt, cap, conv, loop, idx, new, metro, lstart, imp, early,
                 fin, base, lastAcc, accCur, evals, dl, lastKt, stage, hist, ref>>

(* End of an inner loop, in the order of the code: cool; convergence test  *)
(* (an early return skips the adaptation and the final validity check);    *)
(* adapt the step.                                                          *)
EndLoop(small, k2) ==
  /\ pc = "endloop"
  /\ IF cfg.convOn THEN SmallOK(small, cur, lstart, cfg.thr) ELSE small = FALSE
  /\ CoolOK(kt, k2, cfg)
  /\ kt' = k2
  /\ dl' = IF dl = {} /\ kt.cls = "pos" /\ kt'.cls = "pos" THEN {kt'.lvl - kt.lvl} ELSE dl
  /\ imp' = IF ~cfg.convOn THEN "na" ELSE IF small THEN "small" ELSE "big"
  /\ LET conv2 == IF ~cfg.convOn THEN conv ELSE IF small THEN conv + 1 ELSE 0
         exit  == cfg.convOn /\ small /\ conv2 > ConvLimit
     IN /\ conv' = conv2
        /\ IF exit
           THEN /\ pc' = "done" /\ early' = TRUE
                /\ UNCHANGED <<cap, loop, t, rej, lstart>>
           ELSE /\ AdaptOK(cap, cap', rej, Inner(cfg), cfg.capMax)
                /\ loop' = loop + 1 /\ t' = 0 /\ rej' = 0 /\ lstart' = cur
                /\ pc' = IF loop >= Loops(cfg) THEN "final" ELSE "propose"
                /\ UNCHANGED early
  /\ UNCHANGED <<cfg, val, old, cur, idx, new, metro, fin, base, lastAcc, accCur, evals,
                 lastKt, stage, hist, ref>>

\* assert!(state.score().is_some()); state
Final(s) ==
  /\ pc = "final"
  /\ s \in LandSet(val)
  /\ fin' = {s}
  /\ pc' = IF s # Undef THEN "done" ELSE "panic"
  /\ UNCHANGED <<cfg, val, old, cur, kt, cap, rej, conv, t, loop, idx, new, metro, lstart,
                 imp, early, base, lastAcc, accCur, evals, dl, lastKt, stage, hist, ref>>

\* the caller scores the state it got back (main.rs logs and compares final scores)
Observe(s) ==
  /\ pc = "done"
  /\ s \in LandSet(val)
  /\ fin' = {s}
  /\ UNCHANGED <<cfg, val, old, cur, kt, cap, rej, conv, t, loop, pc, idx, new, metro, lstart,
                 imp, early, base, lastAcc, accCur, evals, dl, lastKt, stage, hist, ref>>

(* A further run.  chained: the result of this run is the input of the      *)
(* next (the CLI's three stages); the handles are rebuilt, so the bounds    *)
(* are re-derived and may only shrink.  Otherwise an unrelated run.         *)
Restart(c, v, chained) ==
  /\ pc = "done"
  /\ cfg' = c
  /\ IF chained
     THEN /\ v = val /\ c.n = cfg.n
          /\ \A i \in H(c) : c.hi[i] <= cfg.hi[i] /\ c.lo[i] >= cfg.lo[i]
          /\ stage' = stage + 1
     ELSE stage' = 1
  /\ \A i \in H(c) : InRange(c, i, v[i])
  /\ val' = v /\ old' = v /\ base' = v /\ lastAcc' = v
  /\ cur' = Undef /\ kt' = KtOf(c) /\ cap' = c.capMax
  /\ rej' = 0 /\ conv' = 0 /\ t' = 0 /\ loop' = 1 /\ pc' = "new"
  /\ idx' = 1 /\ new' = Undef /\ metro' = "no" /\ lstart' = Undef /\ imp' = "na"
  /\ early' = FALSE /\ fin' = {} /\ accCur' = Undef /\ evals' = 0 /\ dl' = {} /\ lastKt' = KtOf(c)
  /\ hist' = <<>> /\ ref' = IF c.prefixRef THEN hist ELSE <<>>

Next ==
  \/ \E s \in Scores \cup {Undef} : Begin(s)
  \/ \E i \in H(cfg), v \in Values : Propose(i, v)
  \/ \E s \in Scores \cup {Undef} : Eval(s)
  \/ \E m \in {"yes", "no"} : Draw(m)
  \/ Accept \/ Reject
  \/ \E small \in BOOLEAN, k2 \in KtCandidates(kt, cfg) : EndLoop(small, k2)
  \/ \E s \in Scores \cup {Undef} : Final(s)
  \/ \E s \in Scores \cup {Undef} : Observe(s)

(* The same step relation with every existential witnessed from the primed *)
(* state; this is the form recorded executions are checked against.        *)
NextW ==
  \/ (pc' # "panic" /\ Begin(cur')) \/ (pc' = "panic" /\ \E s \in fin' : Begin(s))
  \/ Propose(idx', val'[idx'])
  \/ Eval(new')
  \/ Draw(metro')
  \/ Accept \/ Reject
  \/ EndLoop(imp' = "small", kt')
  \/ \E s \in fin' : Final(s)
  \/ \E s \in fin' : Observe(s)
  \/ Restart(cfg', val', stage' = stage + 1)

Running == pc \notin {"done", "panic"}
Spec == Init /\ [][Next]_vars /\ WF_vars(Next)

-----------------------------------------------------------------------------
(*                              PROPERTIES                                  *)

InLoopStep == pc \in {"propose", "eval", "draw", "decide"}

(* C05: with a zero starting temperature the accepted score never goes     *)
(* down, and the result scores at least the input.                          *)
C05Step == (cfg.ktStart = "zero" /\ pc # "new" /\ pc' # "new") => cur' >= cur
C05 == [][C05Step]_vars
C05Result == (pc = "done" /\ cfg.ktStart = "zero") => \A s \in fin : s >= cur

(* C06: after a step the vector is the proposal or, bit for bit, the       *)
(* vector before it; a proposal differs from its base in one cell; the     *)
(* returned vector is the last accepted one and `cur` is its score.         *)
C06Reject == (pc = "decide" /\ pc' # "decide" /\ rej' = rej + 1) => val' = base
C06Accept == (pc = "decide" /\ pc' # "decide" /\ rej' = rej) => (val' = val /\ cur' = new)
C06OneCell == (pc = "propose" /\ pc' = "eval") =>
                 \A i, k \in H(cfg) : (val'[i] # val[i] /\ val'[k] # val[k]) => i = k
C06Frozen == pc \in {"eval", "draw", "endloop", "final", "new"} => val' = val
C06Step == C06Reject /\ C06Accept /\ C06OneCell /\ C06Frozen
C06 == [][C06Step]_vars
C06Done == pc = "done" => /\ val = lastAcc /\ cur = accCur
                          /\ cur \in LandSet(val)
                          /\ \A s \in fin : s = cur

(* C07: Metropolis.  The comparison is with the score of the state that is *)
(* actually held (accCur, the observed score of the last accepted          *)
(* proposal), which a correct optimiser also has in score_current.          *)
C07Step == (pc = "decide" /\ pc' # "decide") =>
             LET accepted == rej' = rej IN
             /\ ((Defined(new) /\ new >= accCur) => accepted)
             /\ (new = Undef => ~accepted)
             /\ ((Defined(new) /\ new < accCur /\ kt.cls = "zero") => ~accepted)
             /\ ((Defined(new) /\ new < accCur /\ kt.cls = "pos" /\ metro = "yes") => accepted)
             /\ ((Defined(new) /\ new < accCur /\ kt.cls = "pos" /\ metro = "no") => ~accepted)
C07 == [][C07Step]_vars

(* C08: values stay in their declared ranges; a finished run has a         *)
(* defined, finite score; chained stages never widen a range.               *)
\* (used by C18: a temperature of zero acts as a temperature of zero, whatever value is carried)
C18ZeroStep == (pc = "decide" /\ pc' # "decide" /\ kt.cls = "zero") =>
                  ((Defined(new) /\ new < accCur) => rej' # rej)
C18Zero == [][C18ZeroStep]_vars
\* ... and a positive temperature governs the acceptance of the loop it belongs to: where the draw
\* decides clearly (verdict of u < exp(-d/kT) at the temperature in force), the decision follows it
C18GovernStep == (pc = "decide" /\ pc' # "decide" /\ kt.cls = "pos" /\ Defined(new) /\ new < accCur) =>
                    /\ (metro = "yes" => rej' = rej)
                    /\ (metro = "no" => rej' # rej)
C18Governs == [][C18GovernStep]_vars

C08Range == \A i \in H(cfg) : InRange(cfg, i, val[i])
C08Done == pc = "done" => Defined(cur)
(* C04 (the part that concerns the optimiser): a parameter the crystal      *)
(* family of the group does not leave free (declared range of width zero)  *)
(* never moves, so the cell keeps the metric symmetry of its group.         *)
\* (a single value has a declared range of at most one unit of the fixed point: floor and ceiling)
C04Frozen == \A i \in H(cfg) : cfg.hi[i] - cfg.lo[i] <= 1 =>
                (Fx(val[i]) >= cfg.lo[i] - Tol /\ Fx(val[i]) <= cfg.hi[i] + Tol)
C08Chain == (pc = "done" /\ pc' = "new" /\ stage' = stage + 1) =>
               /\ val' = val
               /\ \A i \in H(cfg) : cfg'.hi[i] <= cfg.hi[i] + Tol /\ cfg'.lo[i] >= cfg.lo[i] - Tol
C08 == [][C08Chain]_vars
\* the state that is held always has a defined, finite score: no proposal without one is accepted
C08AcceptStep == (pc = "decide" /\ pc' # "decide" /\ rej' = rej) => Defined(new)
C08Held == [][C08AcceptStep]_vars

(* C18: constant inside a loop, one admissible cooling step between loops, *)
(* zero stays zero, the last loop is governed by the requested finish.      *)
C18Step ==
  /\ (pc # "endloop" /\ pc # "done") => kt' = kt
  /\ (pc = "endloop") =>
        /\ InWindow(kt, kt', cfg)
        /\ (kt.cls = "pos" /\ kt'.cls = "pos" /\ kt.lvl > UnderflowLvl) =>
              \A d \in dl : Abs((kt'.lvl - kt.lvl) - d) <= Tol
  /\ (kt.cls = "zero" /\ pc # "done") => kt'.cls = "zero"
C18 == [][C18Step]_vars
C18Finish == (pc = "done" /\ ~early /\ cfg.sched = "finish" /\ cfg.ktStart = "pos"
              /\ Loops(cfg) > 0 /\ ~cfg.fzero)
             => (lastKt.cls = "pos" /\ lastKt.lvl >= cfg.lastLo - Tol /\ lastKt.lvl <= cfg.lastHi + Tol)

(* C19: one cell per proposal, by at most the configured maximum; the step *)
(* ratio never exceeds 1.                                                   *)
C19Step == (pc = "propose" /\ pc' = "eval") =>
              \A i \in H(cfg) : Dist(val'[i], val[i]) <= cfg.maxd[i] + Tol
C19 == [][C19Step]_vars
C19Cap == cap <= cfg.capMax + Tol

(* C20: no panic from a valid input; at most `steps` evaluations and at    *)
(* least steps minus one inner loop; early exit only after more than       *)
(* ConvLimit consecutive small loops; termination.                          *)
\* the only panic is the documented one: the input was scored and found invalid
C20NoPanic == pc = "panic" => (cur = Undef /\ evals = 0 /\ fin \subseteq {Undef, Bad} /\ fin # {})
C20Work == pc = "done" =>
             /\ evals <= cfg.steps
             /\ ~early => evals >= cfg.steps - Max(1, Inner(cfg))
             /\ early => (cfg.convOn /\ conv > ConvLimit /\ imp = "small")
C20ConvStep == (pc = "endloop" /\ cfg.convOn) =>
                 /\ (imp' = "small" => conv' = conv + 1)
                 /\ (imp' = "big" => conv' = 0)
                 /\ (pc' = "done" <=> (imp' = "small" /\ conv' > ConvLimit))
C20Conv == [][C20ConvStep]_vars
(* With a convergence threshold the run is an exact prefix of the run      *)
(* without it: same proposals, same scores, evaluation by evaluation.       *)
C20PrefixStep == (pc = "eval" /\ pc' # "eval" /\ cfg.prefixRef) =>
                    /\ evals' <= Len(ref)
                    /\ ref[evals'] = <<val, new'>>
C20Prefix == [][C20PrefixStep]_vars
(* C11 (the part that concerns the optimiser): a run started from a state  *)
(* that was written to JSON and read back repeats, evaluation by            *)
(* evaluation, the run started from the state itself.                       *)
C11Same == [][C20PrefixStep]_vars
C11SameDone == (pc = "done" /\ cfg.prefixRef /\ cfg.sameLength) => evals = Len(ref)
C20Terminates == <>(pc \in {"done", "panic"})

TypeOK ==
  /\ pc \in {"new", "propose", "eval", "draw", "decide", "endloop", "final", "done", "panic"}
  /\ kt.cls \in {"zero", "pos", "bad"}
  /\ rej >= 0 /\ conv >= 0 /\ t >= 0 /\ loop >= 1 /\ evals >= 0
=============================================================================
