---------------------------- MODULE MC_Optimiser ----------------------------
(* Bounded model of Optimiser: 2 handles over values 0..2, a fixed score     *)
(* landscape with an invalid region and ties, a matrix of configurations.    *)
EXTENDS Integers, Sequences, FiniteSets, TLC

CONSTANTS Variant, ConvLimit, StepsSet, InnerSet

VARIABLES cfg, val, old, cur, kt, cap, rej, conv, t, loop, pc, idx, new, metro, lstart, imp,
          early, fin, base, lastAcc, accCur, evals, dl, lastKt, stage, hist, ref

Undef == -1
Bad == -2
MCFx(v) == v
MCMoveCap(maxd, c, capMax) == (maxd * c) \div capMax
\* the code's rule: grow by inner/(rej+1), never beyond the configured maximum
MCAdaptOK(c, c2, r, inner, capMax) ==
   IF Variant = "adaptAsWritten"
   THEN c2 = IF c = 0 THEN 0 ELSE (c * inner) \div (r + 1)
   ELSE c2 = IF c = 0 THEN 0 ELSE (IF (c * inner) \div (r + 1) > capMax THEN capMax
                                    ELSE (c * inner) \div (r + 1))
MCSmallOK(small, c, ls, thr) == small = (c - ls < thr)
\* landscape: invalid at (0,0) and (2,2); ties; maximum at (2,1)
Land(v) == CASE v[1] = 0 /\ v[2] = 0 -> Undef
             [] v[1] = 2 /\ v[2] = 2 -> Undef
             [] OTHER -> (v[1] * 2 + v[2]) % 4
MCLandSet(v) == {Land(v)}
MCValues == 0..2
MCScores == 0..3

Seq2(a) == <<a, a>>
Mk(steps, inner, ks, sched, fz, con) ==
   LET innerE == IF inner < steps THEN (IF inner < 1 THEN 1 ELSE inner) ELSE (IF steps < 1 THEN 1 ELSE steps)
       loops == steps \div innerE
       d == IF steps < 1 THEN 1 ELSE steps
   IN [n |-> 2, lo |-> Seq2(0), hi |-> Seq2(2), maxd |-> Seq2(2), capMax |-> 2,
       steps |-> steps, innerReq |-> inner, ktStart |-> ks, ktLvl |-> 0,
       sched |-> sched, fzero |-> fz,
       dlnLo |-> IF sched = "finish" THEN d ELSE 1,
       dlnHi |-> IF sched = "finish" THEN d ELSE IF sched = "none" THEN 2 ELSE 1,
       dlnAsWritten |-> loops,
       lastLo |-> d * (loops - 1), lastHi |-> d * loops,
       anyFactor |-> FALSE, keepHist |-> FALSE, prefixRef |-> FALSE, sameLength |-> FALSE,
       convOn |-> con, thr |-> 1]
MCConfigs == { Mk(s, i, ks, sc, fz, con) :
                 s \in StepsSet, i \in InnerSet, ks \in {"zero", "pos"},
                 sc \in {"ratio", "finish", "none"}, fz \in BOOLEAN, con \in BOOLEAN }
             \ { c \in { Mk(s, i, ks, sc, TRUE, con) : s \in StepsSet, i \in InnerSet, ks \in {"zero", "pos"},
                            sc \in {"finish", "none"}, con \in BOOLEAN } : TRUE }

INSTANCE Optimiser WITH Fx <- MCFx, MoveCap <- MCMoveCap, AdaptOK <- MCAdaptOK, SmallOK <- MCSmallOK,
                        LandSet <- MCLandSet, Tol <- 0, Configs <- MCConfigs, Values <- MCValues,
                        Scores <- MCScores

\* history and bookkeeping variables that do not influence behaviour are hidden from the fingerprint
View == <<cfg, val, old, cur, kt, cap, rej, conv, t, loop, pc, idx, new, metro, lstart, imp,
          early, fin, base, lastAcc, accCur, evals, dl, lastKt>>

WitnessForm == [][NextW]_vars

\* one line per finished behaviour prefix is not needed here; scripts for replay are produced by
\* MC_OptScript.
=============================================================================
