---------------------------- MODULE MC_OptScript ----------------------------
EXTENDS OptScript, TLC, Json
RECURSIVE Join(_, _)
Join(cs, i) == IF i > Len(cs) THEN "" ELSE cs[i] \o Join(cs, i + 1)
Emit == Len(script) > 0 =>
          PrintT(<<"EMIT", ToJson([regime |-> regime, script |-> Join(script, 1), decisions |-> decisions,
                                    units |-> held[1], ulps |-> held[2]])>>)
=============================================================================
