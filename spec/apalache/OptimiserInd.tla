---------------------------- MODULE OptimiserInd ----------------------------
(***************************************************************************)
(* Unbounded safety of the optimiser's core step (for Apalache): the       *)
(* propose / accept / reject cycle of Optimiser.tla over N handles whose   *)
(* values, bounds and scores are arbitrary integers.  IndInv is an         *)
(* inductive invariant: it holds initially and is preserved by every step, *)
(* for all values (TLC checks the same actions for three values only).     *)
(* It implies the state-level cores of C06 (a rejected move restores the   *)
(* vector; one cell differs during a proposal), C08 (values stay in their  *)
(* bounds) and C05/C18 (zero temperature stays zero, the held score never  *)
(* decreases at zero temperature).                                         *)
(***************************************************************************)
EXTENDS Integers

\* Apalache needs a constant range for function sets: three handles (as many cell parameters as a
\* monoclinic cell has; the argument does not depend on the number)
N == 3

VARIABLES
    \* @type: Int -> Int;
    val,
    \* @type: Int -> Int;
    old,
    \* @type: Int -> Int;
    base,
    \* @type: Int -> Int;
    lo,
    \* @type: Int -> Int;
    hi,
    \* @type: Int;
    cur,
    \* @type: Int;
    low,
    \* @type: Int;
    new,
    \* @type: Bool;
    defined,
    \* @type: Bool;
    metro,
    \* @type: Bool;
    ktzero,
    \* @type: Bool;
    startzero,
    \* @type: Int;
    idx,
    \* @type: Str;
    pc

H == 1..N
Clamp(i, v) == IF v < lo[i] THEN lo[i] ELSE IF v > hi[i] THEN hi[i] ELSE v

Init ==
    /\ lo \in [H -> Int] /\ hi \in [H -> Int] /\ \A i \in H : lo[i] <= hi[i]
    /\ val \in [H -> Int] /\ \A i \in H : val[i] >= lo[i] /\ val[i] <= hi[i]
    /\ old = val /\ base = val
    /\ cur \in Int /\ low = cur /\ new = cur /\ defined = TRUE /\ metro = FALSE
    /\ startzero \in BOOLEAN /\ ktzero = startzero
    /\ idx = 1 /\ pc = "propose"

Propose ==
    /\ pc = "propose"
    /\ \E i \in H : \E v \in Int :
         /\ idx' = i
         /\ base' = val
         /\ old' = [old EXCEPT ![i] = val[i]]
         /\ val' = [val EXCEPT ![i] = Clamp(i, v)]
    /\ pc' = "eval"
    /\ UNCHANGED <<lo, hi, cur, low, new, defined, metro, ktzero, startzero>>

Eval ==
    /\ pc = "eval"
    /\ new' \in Int /\ defined' \in BOOLEAN /\ metro' \in BOOLEAN
    /\ pc' = "decide"
    /\ UNCHANGED <<val, old, base, lo, hi, cur, low, ktzero, startzero, idx>>

Accept ==
    /\ pc = "decide"
    /\ defined /\ (new >= cur \/ (~ktzero /\ metro))
    /\ cur' = new
    /\ pc' = "propose"
    /\ UNCHANGED <<val, old, base, lo, hi, low, new, defined, metro, ktzero, startzero, idx>>

Reject ==
    /\ pc = "decide"
    /\ ~(defined /\ (new >= cur \/ (~ktzero /\ metro /\ new < cur)))
    /\ val' = [val EXCEPT ![idx] = old[idx]]
    /\ pc' = "propose"
    /\ UNCHANGED <<old, base, lo, hi, cur, low, new, defined, metro, ktzero, startzero, idx>>

\* cooling: a positive temperature may reach zero, zero stays zero
Cool ==
    /\ pc = "propose"
    /\ ktzero' \in BOOLEAN /\ (ktzero => ktzero')
    /\ UNCHANGED <<val, old, base, lo, hi, cur, low, new, defined, metro, startzero, idx, pc>>

Next == Propose \/ Eval \/ Accept \/ Reject \/ Cool

InBounds == \A i \in H : val[i] >= lo[i] /\ val[i] <= hi[i]
TypeOK == /\ val \in [H -> Int] /\ old \in [H -> Int] /\ base \in [H -> Int]
          /\ lo \in [H -> Int] /\ hi \in [H -> Int]
          /\ cur \in Int /\ low \in Int /\ new \in Int
          /\ defined \in BOOLEAN /\ metro \in BOOLEAN /\ ktzero \in BOOLEAN /\ startzero \in BOOLEAN
          /\ idx \in H /\ pc \in {"propose", "eval", "decide"}
IndInv ==
    /\ TypeOK
    /\ \A i \in H : lo[i] <= hi[i]
    /\ InBounds
    /\ \A i \in H : base[i] >= lo[i] /\ base[i] <= hi[i]
    \* while a proposal is in flight: the remembered value is the one before it, the vector
    \* differs from the one before it in the chosen cell only
    /\ pc \in {"eval", "decide"} =>
         /\ old[idx] = base[idx]
         /\ \A j \in H : j # idx => val[j] = base[j]
    \* a zero start keeps the temperature at zero and the held score from falling
    /\ startzero => (ktzero /\ cur >= low)

\* what the invariant is for (checked as ordinary invariants of the induction step as well)
RejectRestores == (pc = "decide") => ([val EXCEPT ![idx] = old[idx]] = base)

IndInit == IndInv
\* sanity of the induction hypothesis (must be VIOLATED: the hypothesis is satisfiable and a
\* rejection step is reachable from it)
NeverDecide == pc # "decide"
=============================================================================
