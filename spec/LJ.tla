---------------------------------- MODULE LJ ----------------------------------
(***************************************************************************)
(* Property C13: the pair potential (src/shape/components/lj2.rs) is the   *)
(* shifted, truncated 12-6 Lennard-Jones law.  With q = (sigma/r)^6 the    *)
(* law is rational: E(q) = 4 eps (q^2 - q); with a cutoff qc = (sigma/rc)^6*)
(* the energy is E(q) - E(qc) for r < rc (q > qc) and 0 from the cutoff    *)
(* on.  TLC enumerates (eps, q, cutoff case) over rationals and computes   *)
(* the exact energy; the harness realises each case at several sigma       *)
(* (r = sigma q^(-1/6)), in both argument orders and after rigid motions.  *)
(*                                                                         *)
(* A molecule is a set of particles; the energy of two molecules is the    *)
(* sum over particle pairs.  For molecules on an integer grid TLC lists    *)
(* the squared distance of every pair (the structure of the sum); each     *)
(* term follows the pair law above.                                        *)
(***************************************************************************)
EXTENDS Integers, Sequences, FiniteSets

CONSTANTS EpsSet,    \* <<num, den>>
          QSet,      \* <<a, b>>: q = a/b
          CutSet     \* <<0, 1>> for no cutoff, else qc = a/b

VARIABLES eps, q, cut
vars == <<eps, q, cut>>

\* 4 eps (q^2 - q) as <<num, den>>
Raw(e, x) == << 4 * e[1] * (x[1] * x[1] - x[1] * x[2]), e[2] * x[2] * x[2] >>
Sub(x, y) == << x[1] * y[2] - y[1] * x[2], x[2] * y[2] >>
Less(x, y) == x[1] * y[2] < y[1] * x[2]                \* positive denominators
NoCut == cut[1] = 0
Energy == IF NoCut THEN Raw(eps, q)
          ELSE IF Less(cut, q) THEN Sub(Raw(eps, q), Raw(eps, cut))   \* r < rc
          ELSE <<0, 1>>
Case == IF NoCut THEN "uncut" ELSE IF Less(cut, q) THEN "inside"
        ELSE IF q = cut THEN "at" ELSE "beyond"

Init == eps \in EpsSet /\ q \in QSet /\ cut \in CutSet
Next == \/ \E x \in QSet : q' = x /\ UNCHANGED <<eps, cut>>
        \/ \E x \in CutSet : cut' = x /\ UNCHANGED <<eps, q>>
Spec == Init /\ [][Next]_vars

\* minimum -eps, attained only at q = 1/2 (r = 2^(1/6) sigma), when uncut
MinOK == NoCut => /\ Energy[1] * eps[2] >= -eps[1] * Energy[2]
                  /\ (Energy[1] * eps[2] = -eps[1] * Energy[2]) <=> (2 * q[1] = q[2])
\* continuous at the cutoff: the shifted energy tends to 0 there
ContinuousOK == (~NoCut /\ q = cut) => Energy[1] = 0
\* zero crossing at r = sigma when uncut
ZeroOK == (NoCut /\ q[1] = q[2]) => Energy[1] = 0
ModelOK == MinOK /\ ContinuousOK /\ ZeroOK
=============================================================================
