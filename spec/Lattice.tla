------------------------------- MODULE Lattice -------------------------------
(***************************************************************************)
(* Property C14: one lattice (src/cell.rs).  Lattice vectors A = (ax, 0)/U *)
(* and B = (bx, by)/U; a placement has fractional position (fx, fy)/D      *)
(* (anywhere, not only inside the home cell) and a rational orientation.   *)
(*   ToCart      fractional -> Cartesian, linear in both arguments         *)
(*   Images(k,z) the placement translated by every n A + m B, |n|,|m|<=k,  *)
(*               the untranslated one included iff z; orientation kept     *)
(*   Area        |A x B|                                                   *)
(*   Corners     the cell centred on the origin                            *)
(* World coordinates are multiplied by D*U.  The crystal family is only a  *)
(* label here: the map is the same for all four families and any angle.    *)
(***************************************************************************)
EXTENDS Integers, Sequences, FiniteSets

CONSTANTS U, D, FamSet, AxSet, BSet, FracSet, OrientSet, KSet

Orients == << <<1, 0, 1>>, <<0, 1, 1>>, <<-1, 0, 1>>, <<0, -1, 1>>,
              <<4, 3, 5>>, <<3, 4, 5>>, <<-3, 4, 5>>, <<-4, 3, 5>>,
              <<-4, -3, 5>>, <<-3, -4, 5>>, <<3, -4, 5>>, <<4, -3, 5>>,
              <<12, 5, 13>>, <<5, 12, 13>>, <<-5, 12, 13>>, <<-12, 5, 13>> >>

VARIABLES fam, ax, bx, by, fx, fy, o, mir, k, zero
vars == <<fam, ax, bx, by, fx, fy, o, mir, k, zero>>

ToCart(x, y) == << x * ax + y * bx, y * by >>          \* (x, y)/D -> world * D * U
Images == { <<n, m, ToCart(fx + n * D, fy + m * D)[1], ToCart(fx + n * D, fy + m * D)[2]>> :
              n \in -k..k, m \in -k..k } \ (IF zero THEN {} ELSE { <<0, 0, ToCart(fx, fy)[1], ToCart(fx, fy)[2]>> })
Area == ax * by                                         \* * U^2
Corners == << ToCart(-(D \div 2), -(D \div 2)), ToCart(-(D \div 2), D \div 2),
              ToCart(D \div 2, D \div 2), ToCart(D \div 2, -(D \div 2)) >>

MinOf(X) == CHOOSE x \in X : \A y \in X : x <= y
Init == /\ fam \in FamSet /\ ax = MinOf(AxSet)
        /\ LET b == CHOOSE b \in BSet : TRUE IN bx = b[1] /\ by = b[2]
        /\ fx = MinOf(FracSet) /\ fy = MinOf(FracSet) /\ o = MinOf(OrientSet)
        /\ k = MinOf(KSet) /\ zero = FALSE /\ mir = FALSE
Next == \/ \E a \in AxSet : ax' = a /\ UNCHANGED <<fam, bx, by, fx, fy, o, mir, k, zero>>
        \/ \E b \in BSet : bx' = b[1] /\ by' = b[2] /\ UNCHANGED <<fam, ax, fx, fy, o, mir, k, zero>>
        \/ \E x \in FracSet : fx' = x /\ UNCHANGED <<fam, ax, bx, by, fy, o, mir, k, zero>>
        \/ \E y \in FracSet : fy' = y /\ UNCHANGED <<fam, ax, bx, by, fx, o, mir, k, zero>>
        \/ \E q \in OrientSet : o' = q /\ UNCHANGED <<fam, ax, bx, by, fx, fy, mir, k, zero>>
        \/ \E j \in KSet : k' = j /\ UNCHANGED <<fam, ax, bx, by, fx, fy, o, mir, zero>>
        \/ zero' = ~zero /\ UNCHANGED <<fam, ax, bx, by, fx, fy, o, mir, k>>
        \* the placement may be a mirrored copy (a reflection times the rotation)
        \/ mir' = ~mir /\ UNCHANGED <<fam, ax, bx, by, fx, fy, o, k, zero>>
Spec == Init /\ [][Next]_vars

\* the count of images, each lattice translate once
CountOK == Cardinality(Images) = (2 * k + 1) * (2 * k + 1) - (IF zero THEN 0 ELSE 1)
\* linearity of the map: translating the fractional position by a lattice vector translates
\* the Cartesian position by n A + m B
LinearOK == \A n, m \in {-1, 1} :
               ToCart(fx + n * D, fy + m * D) = << ToCart(fx, fy)[1] + D * (n * ax + m * bx),
                                                   ToCart(fx, fy)[2] + D * m * by >>
ModelOK == CountOK /\ LinearOK
=============================================================================
