------------------------------ MODULE OptScript ------------------------------
(***************************************************************************)
(* Specification -> implementation replay for the optimiser: every script  *)
(* of offers up to a length, with the decisions and the final score the    *)
(* Metropolis rule of Optimiser.tla prescribes.                            *)
(*                                                                         *)
(* An offer is relative to the score of the state that is held:            *)
(*   "B" better by 1, "b" better by one ulp, "E" equal,                    *)
(*   "w" worse by one ulp, "W" worse by 1, "U" undefined.                  *)
(* Two temperature regimes make every decision deterministic:              *)
(*   "zero"  kT = 0:      accept iff defined and not worse                 *)
(*   "warm"  kT = 1e-3, scores of order 100 (one ulp = 1.4e-14): a move    *)
(*           worse by one ulp is accepted (p = 1 - 1e-11), a move worse    *)
(*           by 1 is rejected (p = e^-1000 = 0)                            *)
(* A state is a script prefix; Next appends one offer, so TLC's reachable  *)
(* states are all scripts up to MaxLen, each printed with its decisions.   *)
(* The held score is tracked as <<units, ulps>>.                           *)
(***************************************************************************)
EXTENDS Integers, Sequences, FiniteSets

CONSTANTS MaxLen, Offers, Regimes

VARIABLES regime, script, decisions, held
vars == <<regime, script, decisions, held>>

Accepts(r, o) ==
  CASE o \in {"B", "b", "E"} -> TRUE
    [] o = "w" -> r = "warm"
    [] o = "W" -> FALSE
    [] o = "U" -> FALSE
After(h, o) ==
  CASE o = "B" -> <<h[1] + 1, h[2]>>
    [] o = "b" -> <<h[1], h[2] + 1>>
    [] o = "w" -> <<h[1], h[2] - 1>>
    [] OTHER -> h

Init == regime \in Regimes /\ script = <<>> /\ decisions = <<>> /\ held = <<0, 0>>
Next == /\ Len(script) < MaxLen
        /\ \E o \in Offers :
             /\ script' = Append(script, o)
             /\ decisions' = Append(decisions, Accepts(regime, o))
             /\ held' = IF Accepts(regime, o) THEN After(held, o) ELSE held
        /\ UNCHANGED regime
Spec == Init /\ [][Next]_vars

\* C05 on the scripts: at zero temperature the held score never goes down
ZeroMonotone == regime = "zero" => (held[1] >= 0 /\ held[2] >= 0)
\* the number of accepted offers is the number of TRUE decisions (sanity of the fold)
CountOK == Len(decisions) = Len(script)
=============================================================================
