-------------------------------- MODULE MC_LJ --------------------------------
EXTENDS LJ, TLC, Json
Emit == PrintT(<<"EMIT", ToJson([en |-> eps[1], ed |-> eps[2], qa |-> q[1], qb |-> q[2],
                                  ca |-> cut[1], cb |-> cut[2], case |-> Case,
                                  num |-> Energy[1], den |-> Energy[2]])>>)
=============================================================================
