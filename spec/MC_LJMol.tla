------------------------------ MODULE MC_LJMol ------------------------------
EXTENDS LJMol, TLC, Json
Emit == NoContact => PrintT(<<"EMIT", ToJson([a |-> A, b |-> B, k |-> K, c2 |-> c2, cb2 |-> cb2, pc2 |-> PairCut])>>)
=============================================================================
