SPECIFICATION Spec
INVARIANTS Closed TableOK ReferenceOK Emit
CHECK_DEADLOCK FALSE
