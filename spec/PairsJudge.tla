------------------------------ MODULE PairsJudge ------------------------------
(***************************************************************************)
(* Property C12 for shapes and placements off every rational grid          *)
(* (regular n-gons, radial polygons, bent trimers, arbitrary angles):      *)
(* judge of recorded pairs.  The harness records two placed copies - the   *)
(* world vertices (or disc centres and radii) rounded to 1/1000 - and the  *)
(* answers of the real `intersects` (both argument orders, several common  *)
(* rigid motions and reflections).  Rounding moves every vertex by less    *)
(* than one unit, so a verdict is only drawn with a margin of Margin       *)
(* units:                                                                  *)
(*   "overlap"  every edge-normal axis shows a projection overlap of at    *)
(*              least Margin * |axis|_1 (so the penetration depth of the   *)
(*              real shapes exceeds Margin - 2 units)                      *)
(*   "apart"    some axis shows a gap of at least Margin * |axis|_1        *)
(*   otherwise  "undecided" - never asserted.                              *)
(* For molecules the same with centre distances and radii.                 *)
(***************************************************************************)
EXTENDS Integers, Sequences, FiniteSets, TLC, Json, IOUtils, Shapes

Log == ndJsonDeserialize(IOEnv.TRACE)
Margin == 4

VARIABLE l
Rec == Log[l]

L1(a) == Abs(a[1]) + Abs(a[2])
PolyJudge(P, Q) ==
  LET axes == Normals(P) \cup Normals(Q)
      gap(a) == LET pp == Proj(P, a) qq == Proj(Q, a)
                IN IF MinOf(qq) - MaxOf(pp) >= MinOf(pp) - MaxOf(qq)
                   THEN MinOf(qq) - MaxOf(pp) ELSE MinOf(pp) - MaxOf(qq)
  IN IF \E a \in axes : L1(a) > 0 /\ gap(a) >= Margin * L1(a) THEN "apart"
     ELSE IF \A a \in axes : L1(a) > 0 => -gap(a) >= Margin * L1(a) THEN "overlap"
     ELSE "undecided"

\* integer square root bound free: compare squares with the margin added to the radii
DiscJudge(P, Q) ==
  LET d2(p, q) == (p[1] - q[1]) * (p[1] - q[1]) + (p[2] - q[2]) * (p[2] - q[2])
      deep(p, q) == p[3] + q[3] - Margin > 0 /\ d2(p, q) <= (p[3] + q[3] - Margin) * (p[3] + q[3] - Margin)
      far(p, q) == d2(p, q) >= (p[3] + q[3] + Margin) * (p[3] + q[3] + Margin)
  IN IF \E i \in 1..Len(P), j \in 1..Len(Q) : deep(P[i], Q[j]) THEN "overlap"
     ELSE IF \A i \in 1..Len(P), j \in 1..Len(Q) : far(P[i], Q[j]) THEN "apart"
     ELSE "undecided"

Verdict(r) == IF r.kind = "poly" THEN PolyJudge(r.p, r.q) ELSE DiscJudge(r.p, r.q)

Init == l = 2
Next == l < Len(Log) /\ l' = l + 1
Spec == Init /\ [][Next]_l

AllTrue(s) == \A i \in 1..Len(s) : s[i]
AllFalse(s) == \A i \in 1..Len(s) : ~s[i]
\* the law
C12Judge == LET v == Verdict(Rec) IN
            \* a rigid motion of a shape is a shape: finite coordinates and radii
            /\ ~Rec.nonfinite
            /\ (v = "overlap" => AllTrue(Rec.answers))
            /\ (v = "apart" => AllFalse(Rec.answers))
\* one line per record for the coverage count
EmitVerdict == PrintT(<<"VERDICT", Verdict(Rec)>>)
Accepted ==
  IF TLCGet("stats").diameter = Len(Log) - 1 THEN TRUE
  ELSE Print(<<"TRACE-NOT-CONSUMED", TLCGet("stats").diameter, Len(Log)>>, FALSE)
=============================================================================
