------------------------------ MODULE Builder ------------------------------
(***************************************************************************)
(* The configuration front end of the optimiser (optimisation.rs,          *)
(* BuildOptimiser): a plain record of settings with one setter per field,  *)
(* created by Default::default() or from command line options, copied      *)
(* freely (the type is Copy), and turned into the run-time configuration   *)
(* of Optimiser.tla by build().                                            *)
(*                                                                         *)
(* A builder is used as a value that lives across several builds (the CLI  *)
(* itself derives its three stages from one builder: clone, override some  *)
(* fields, build).  What a user relies on:                                 *)
(*                                                                         *)
(*   Frame     a setter changes its own field of its own builder and       *)
(*             nothing else; a copy is independent of its original         *)
(*   Derive    build() is a function of the fields as last set:            *)
(*               inner loop length  max(1, min(inner_steps, steps))  (C20) *)
(*               loops              max(1, steps div inner loop length)    *)
(*               cooling factor     1 - kt_ratio (not below zero) when a   *)
(*                                  ratio is set; otherwise, with a        *)
(*                                  finishing temperature, the factor that *)
(*                                  takes kt_start to kt_finish over the   *)
(*                                  loops; a zero start stays zero  (C18)  *)
(*               step cap, threshold, seed, start temperature as set       *)
(*                                                                         *)
(* Values are symbolic (the harness maps each name to one f64); the        *)
(* schedule is derived symbolically and evaluated by the harness.          *)
(* Every behaviour of this module is a script: TLC enumerates all of them  *)
(* up to MaxOps operations and the harness replays each on the real        *)
(* BuildOptimiser, comparing what build() produced (the optimiser's Start  *)
(* hook) with `expect` at every build.                                     *)
(***************************************************************************)
EXTENDS Integers, Sequences, FiniteSets, TLC

CONSTANTS Origin,      \* "default": BuildOptimiser::default();  "cli": parsed from options
          MaxOps,      \* operations per script (the last one is a build)
          NBuilders,   \* builder values alive at once (copies)
          Variant      \* "spec" | "zeroStartSetsRatio" | "finishClearsRatio" | "sharedCopy"

None == "none"
B == 1..NBuilders

StepsDom == {0, 3, 10}
InnerDom == {0, 2, 1000}
KtStartDom == {"zero", "warm", "hot", "tinyk"}   \* tinyk: positive, far below machine epsilon
KtFinishDom == {"fzero", "cold", "hotter"}      \* the setter always stores Some(value)
RatioDom == {None, "r0", "rhalf", "rbig", "rneg"}   \* kt_ratio(None) is a legal call; rneg heats
MaxStepDom == {"tiny", "unit"}
ConvDom == {None, "c0", "csmall"}
SeedDom == {"s7", "s8"}

Fields == {"steps", "inner", "ktStart", "ktFinish", "ktRatio", "maxStep", "seed", "conv"}
Dom(f) == CASE f = "steps" -> StepsDom [] f = "inner" -> InnerDom [] f = "ktStart" -> KtStartDom
            [] f = "ktFinish" -> KtFinishDom [] f = "ktRatio" -> RatioDom [] f = "maxStep" -> MaxStepDom
            [] f = "seed" -> SeedDom [] f = "conv" -> ConvDom

\* A builder starts from Default::default() or from a command line; the values a field has when
\* nobody set it are not part of any property (they may change between releases), so every script
\* begins by giving each field a value: through the setters (origin "default"; kt_finish has no
\* setter for None) or as options (origin "cli"; the seed is not an option, an absent
\* --kt-finish / --kt-ratio / --convergence is None).
DefaultStarts ==
  { [steps |-> 10, inner |-> 2, ktStart |-> "hot", ktFinish |-> "cold", ktRatio |-> None, maxStep |-> "unit", seed |-> "s7", conv |-> None],
    [steps |-> 3, inner |-> 1000, ktStart |-> "zero", ktFinish |-> "hotter", ktRatio |-> "rhalf", maxStep |-> "tiny", seed |-> "s8", conv |-> "csmall"],
    [steps |-> 0, inner |-> 0, ktStart |-> "warm", ktFinish |-> "fzero", ktRatio |-> "r0", maxStep |-> "unit", seed |-> "s7", conv |-> "c0"],
    [steps |-> 10, inner |-> 0, ktStart |-> "warm", ktFinish |-> "cold", ktRatio |-> "rbig", maxStep |-> "tiny", seed |-> "s8", conv |-> None],
    [steps |-> 3, inner |-> 2, ktStart |-> "hot", ktFinish |-> "hotter", ktRatio |-> None, maxStep |-> "unit", seed |-> "s8", conv |-> "c0"] }
CliStarts == [steps : StepsDom, inner : InnerDom, ktStart : KtStartDom, ktFinish : KtFinishDom \cup {None},
              ktRatio : RatioDom, maxStep : MaxStepDom, seed : {None}, conv : ConvDom]

VARIABLES b,        \* builder -> record of fields
          ghost,    \* what a reader of the calls expects each builder to hold
          ops       \* the script so far
vars == <<b, ghost, ops>>

Min(x, y) == IF x < y THEN x ELSE y
Max(x, y) == IF x > y THEN x ELSE y

(* build(): the run-time configuration, the schedule kept symbolic          *)
Derive(r) ==
  LET innerEff == Max(1, Min(r.inner, r.steps))
      loops == Max(1, r.steps \div innerEff)
      cool == IF r.ktStart = "zero" THEN [kind |-> "zeroStays", a |-> None, loops |-> 0]
              ELSE IF r.ktRatio # None THEN [kind |-> "ratio", a |-> r.ktRatio, loops |-> 0]
              ELSE IF r.ktFinish # None THEN [kind |-> "finish", a |-> r.ktFinish, loops |-> loops]
              ELSE [kind |-> "unspecified", a |-> None, loops |-> 0]
  IN [steps |-> r.steps, innerEff |-> innerEff, loops |-> loops, ktStart |-> r.ktStart, cool |-> cool,
      maxStep |-> r.maxStep, seed |-> r.seed, conv |-> r.conv]

Init ==
  /\ \E r \in (IF Origin = "default" THEN DefaultStarts ELSE CliStarts) : b = [i \in B |-> r]
  /\ ghost = b
  /\ ops = <<[op |-> "new", origin |-> Origin, rec |-> b[1]]>>

Room == Len(ops) < MaxOps

\* a setter call; the wrong designs leak into another field
Set(i, f, v) ==
  /\ Room /\ Len(ops) < MaxOps - 1
  /\ LET r1 == [b[i] EXCEPT ![f] = v]
         r2 == IF Variant = "zeroStartSetsRatio" /\ f = "ktStart" /\ v = "zero" THEN [r1 EXCEPT !.ktRatio = "r0"]
               ELSE IF Variant = "finishClearsRatio" /\ f = "ktFinish" THEN [r1 EXCEPT !.ktRatio = None]
               ELSE r1
     IN b' = IF Variant = "sharedCopy" THEN [j \in B |-> r2] ELSE [b EXCEPT ![i] = r2]
  /\ ghost' = [ghost EXCEPT ![i][f] = v]
  /\ ops' = Append(ops, [op |-> "set", b |-> i, f |-> f, v |-> v])

\* let j be a copy of i (Clone / Copy)
Copy(i, j) ==
  /\ Room /\ Len(ops) < MaxOps - 1 /\ i # j
  /\ b' = [b EXCEPT ![j] = b[i]]
  /\ ghost' = [ghost EXCEPT ![j] = ghost[i]]
  /\ ops' = Append(ops, [op |-> "copy", from |-> i, to |-> j])

\* build() does not change the builder
Build(i) ==
  /\ Room
  /\ ops' = Append(ops, [op |-> "build", b |-> i, expect |-> Derive(b[i])])
  /\ UNCHANGED <<b, ghost>>

Next == \/ \E i \in B : \E f \in Fields : \E v \in Dom(f) : Set(i, f, v)
        \/ \E i, j \in B : Copy(i, j)
        \/ \E i \in B : Build(i)
Spec == Init /\ [][Next]_vars

-----------------------------------------------------------------------------
\* Frame: the builders hold exactly what the calls said
Frame == b = ghost

\* What Derive promises, read off the properties
LastBuild == ops[Len(ops)]
Built == Len(ops) > 1 /\ LastBuild.op = "build"
\* C20: an inner loop has at least one step and never more than the run; the loops fit in the run
C20Shape == Built => LET e == LastBuild.expect IN
               /\ e.innerEff >= 1
               /\ (e.steps >= 1 => e.innerEff <= e.steps)
               /\ e.loops * e.innerEff <= Max(e.steps, 1)
               /\ e.steps - e.loops * e.innerEff < e.innerEff      \* less than one loop is left over
\* C18: a ratio wins over a finishing temperature; a zero start stays zero; the finishing
\* temperature is spread over exactly the loops that are run
C18Shape == Built => LET e == LastBuild.expect
                         r == ghost[LastBuild.b] IN
               /\ (r.ktStart = "zero") <=> (e.cool.kind = "zeroStays")
               /\ (r.ktStart # "zero" /\ r.ktRatio # None) => (e.cool.kind = "ratio" /\ e.cool.a = r.ktRatio)
               /\ (r.ktStart # "zero" /\ r.ktRatio = None /\ r.ktFinish # None) =>
                     (e.cool.kind = "finish" /\ e.cool.a = r.ktFinish /\ e.cool.loops = e.loops)
\* everything else is handed through
PassThrough == Built => LET e == LastBuild.expect
                            r == ghost[LastBuild.b] IN
               /\ e.steps = r.steps /\ e.ktStart = r.ktStart /\ e.maxStep = r.maxStep
               /\ e.seed = r.seed /\ e.conv = r.conv

TypeOK == /\ \A i \in B : \A f \in Fields :
                 IF f \in {"steps", "inner"} THEN b[i][f] \in Dom(f) ELSE b[i][f] \in Dom(f) \cup {None}
          /\ Len(ops) <= MaxOps
=============================================================================
