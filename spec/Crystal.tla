------------------------------- MODULE Crystal -------------------------------
(***************************************************************************)
(* Crystal geometry of pypacking in exact integer arithmetic on a rational *)
(* grid: the lattice (src/cell.rs), site copies and wrapping (src/site.rs, *)
(* src/transform.rs), shapes and their overlap (src/shape), the hard    *)
(* score (src/state/packed.rs).                                            *)
(*                                                                         *)
(* Grid.  Lengths are multiples of 1/U.  The cell is A = (ax, 0)/U,        *)
(* B = (bx, by)/U.  Fractional coordinates are multiples of 1/D (D even).  *)
(* Orientations are rational rotations <<c, s, h>>, c^2 + s^2 = h^2.       *)
(* A world point is kept multiplied by D*U*h, which makes every quantity   *)
(* an integer (see World).                                                 *)
(*                                                                         *)
(* A state is a description of one crystal: group, shape, cell, site.      *)
(* Next is the optimiser's move set on the grid: one parameter at a time,  *)
(* only the parameters the group's crystal family leaves free.             *)
(*                                                                         *)
(* Properties stated here: C01 (LatticeVerdict is the meaning of "no       *)
(* overlap anywhere in the tiling"; Detector(k) is a k-shell search),      *)
(* C02 (HardScore), C04 (Symmetric), C14 (lattice), C15 (Placements).      *)
(***************************************************************************)
EXTENDS Integers, Sequences, FiniteSets, Wallpaper, Shapes

CONSTANTS U, D


-----------------------------------------------------------------------------
(* Shapes: convex radial polygons with integer vertices and molecules of   *)
(* discs with integer centres and radii, in units of 1/U.                   *)
Square == [kind |-> "poly", name |-> "square", radial |-> <<U, U, U, U>>,
           verts |-> << <<0, U>>, <<U, 0>>, <<0, -U>>, <<-U, 0>> >>, renc |-> U]
Kite == [kind |-> "poly", name |-> "kite", radial |-> <<U, U \div 2, U, U \div 2>>,
         verts |-> << <<0, U>>, <<U \div 2, 0>>, <<0, -U>>, <<-(U \div 2), 0>> >>, renc |-> U]
\* the longest radial point is not the first one
Kite2 == [kind |-> "poly", name |-> "kite2", radial |-> <<U \div 2, U, U \div 2, U>>,
          verts |-> << <<0, U \div 2>>, <<U, 0>>, <<0, -(U \div 2)>>, <<-U, 0>> >>, renc |-> U]
\* a quadrilateral without any mirror line (radial 1, 0.5, 0.8, 0.3): handedness matters
Quad == [kind |-> "poly", name |-> "quad", radial |-> <<U, U \div 2, (4 * U) \div 5, (3 * U) \div 10>>,
         verts |-> << <<0, U>>, <<U \div 2, 0>>, <<0, -((4 * U) \div 5)>>, <<-((3 * U) \div 10), 0>> >>, renc |-> U]
Circle == [kind |-> "discs", name |-> "circle", discs |-> << <<0, 0, U>> >>, renc |-> U]
\* from_trimer(radius = r/U, angle = 180, distance = d/U): three discs in a row
Trimer(r, d) == [kind |-> "discs", name |-> "trimer", r |-> r, d |-> d,
                 discs |-> << <<0, 0, U>>, <<-d, 0, r>>, <<d, 0, r>> >>,
                 renc |-> IF d + r > U THEN d + r ELSE U]

-----------------------------------------------------------------------------
(* Rational rotations.                                                      *)
Orients == << <<1, 0, 1>>, <<0, 1, 1>>, <<-1, 0, 1>>, <<0, -1, 1>>,
              <<4, 3, 5>>, <<3, 4, 5>>, <<-3, 4, 5>>, <<-4, 3, 5>>,
              <<-4, -3, 5>>, <<-3, -4, 5>>, <<3, -4, 5>>, <<4, -3, 5>>,
              <<12, 5, 13>>, <<5, 12, 13>>, <<-5, 12, 13>>, <<-12, 5, 13>> >>

VARIABLES g, sh, ax, bx, by, sx, sy, o
vars == <<g, sh, ax, bx, by, sx, sy, o>>

N == Order(g)
C == Orients[o][1]
S == Orients[o][2]
Hh == Orients[o][3]

-----------------------------------------------------------------------------
(* C15: the copies of a site.                                               *)
Wrap(v) == ((v + D \div 2) % D) - D \div 2
Op(k) == Ops(g)[k]
\* fractional position of copy k, numerators over D, in [-D/2, D/2)
Frac(k) == << Wrap(Op(k)[1] * sx + Op(k)[2] * sy + Op(k)[5] * (D \div 2)),
              Wrap(Op(k)[3] * sx + Op(k)[4] * sy + Op(k)[6] * (D \div 2)) >>
\* linear part W_k R(o), numerators over Hh:  <<l11, l12, l21, l22>>
Lin(k) == << Op(k)[1] * C + Op(k)[2] * S, -Op(k)[1] * S + Op(k)[2] * C,
             Op(k)[3] * C + Op(k)[4] * S, -Op(k)[3] * S + Op(k)[4] * C >>
Placements == [k \in 1..N |-> <<Frac(k)[1], Frac(k)[2], Lin(k)[1], Lin(k)[2], Lin(k)[3], Lin(k)[4]>>]

InCell(k) == /\ Frac(k)[1] >= -(D \div 2) /\ Frac(k)[1] < D \div 2
             /\ Frac(k)[2] >= -(D \div 2) /\ Frac(k)[2] < D \div 2
\* congruent to the operation applied to the site, modulo whole lattice vectors
Congruent(k) == /\ (Frac(k)[1] - (Op(k)[1] * sx + Op(k)[2] * sy + Op(k)[5] * (D \div 2))) % D = 0
                /\ (Frac(k)[2] - (Op(k)[3] * sx + Op(k)[4] * sy + Op(k)[6] * (D \div 2))) % D = 0
C15Model == \A k \in 1..N : InCell(k) /\ Congruent(k)

-----------------------------------------------------------------------------
(* C14: the lattice.  World(k, n, m, v): local point v (units 1/U) of copy  *)
(* k translated by n A + m B, multiplied by D*U*Hh.                         *)
Pos(k, n, m) == << Hh * ((Frac(k)[1] + n * D) * ax + (Frac(k)[2] + m * D) * bx),
                   Hh * ((Frac(k)[2] + m * D) * by) >>
Rel(k, v) == << D * (Lin(k)[1] * v[1] + Lin(k)[2] * v[2]),
                D * (Lin(k)[3] * v[1] + Lin(k)[4] * v[2]) >>
World(k, n, m, v) == << Pos(k, n, m)[1] + Rel(k, v)[1], Pos(k, n, m)[2] + Rel(k, v)[2] >>
CellArea == ax * by                      \* |A x B|, units 1/U^2
\* images within k shells are the (2k+1)^2 translates, each once
ImageIndex(k) == (-k..k) \X (-k..k)

-----------------------------------------------------------------------------
(* C12: exact overlap of two placed copies.                                 *)
Renc == sh.renc * D * Hh                 \* enclosing radius in world units
PolyPts(k, n, m) == [i \in 1..Len(sh.verts) |-> World(k, n, m, sh.verts[i])]
DiscPts(k, n, m) == [i \in 1..Len(sh.discs) |->
                       <<World(k, n, m, <<sh.discs[i][1], sh.discs[i][2]>>)[1],
                         World(k, n, m, <<sh.discs[i][1], sh.discs[i][2]>>)[2],
                         sh.discs[i][3] * D * Hh>>]
\* centres further apart than two enclosing radii cannot overlap (box form, no squares)
Far(k1, k2, n, m) == \/ Abs(Pos(k1, 0, 0)[1] - Pos(k2, n, m)[1]) > 2 * Renc
                     \/ Abs(Pos(k1, 0, 0)[2] - Pos(k2, n, m)[2]) > 2 * Renc
PairVerdict(k1, k2, n, m) ==
  IF Far(k1, k2, n, m) THEN "apart"
  ELSE IF sh.kind = "poly" THEN PolyVerdict(PolyPts(k1, 0, 0), PolyPts(k2, n, m))
  ELSE DiscVerdict(DiscPts(k1, 0, 0), DiscPts(k2, n, m))

-----------------------------------------------------------------------------
(* C01: no overlap anywhere in the tiling.  ShellBound: an image whose      *)
(* centre is within 2 Renc of a copy in the home cell has |m| <= KM and     *)
(* |n| <= KN (rows of images parallel to A are by apart; lines parallel to  *)
(* B are ax*by/|B| apart and |B| <= |bx| + by).  Proved for all integers    *)
(* with TLAPS in proofs/ShellBound.tla (theorem ShellBound: not Far implies *)
(* |m| < KM and |n| < KN); TLC checks the consequence ShellBoundOK below on *)
(* every thin state.                                                        *)
KM == (2 * sh.renc) \div by + 2
KN == (2 * sh.renc * (Abs(bx) + by)) \div (ax * by) + 2

Combine(vs) == IF "overlap" \in vs THEN "overlap" ELSE IF "touch" \in vs THEN "touch" ELSE "apart"
Shell(n, m) == IF Abs(n) >= Abs(m) THEN Abs(n) ELSE Abs(m)
\* pairs of distinct images, one in the home cell, whose centres are close enough to matter.
\* The rows m and then the columns n are cut down with the box form of Far before any pair is
\* formed (same set as filtering the full product, far fewer evaluations).
NearNM(k1, k2, kn, km) ==
  LET dfx == Frac(k2)[1] - Frac(k1)[1]
      dfy == Frac(k2)[2] - Frac(k1)[2]
      ms == { m \in -km..km : Abs(Hh * (dfy + m * D) * by) <= 2 * Renc }
  IN UNION { { <<n, m>> : n \in { n \in -kn..kn :
                  Abs(Hh * ((dfx + n * D) * ax + (dfy + m * D) * bx)) <= 2 * Renc } } : m \in ms }
NearPairs(kn, km) ==
  UNION { { <<k1, k2, nm[1], nm[2]>> : nm \in { q \in NearNM(k1, k2, kn, km) :
                                                   ~(k1 = k2 /\ q[1] = 0 /\ q[2] = 0) } } :
          k1 \in 1..N, k2 \in 1..N }
\* <<shell index, verdict>> of every near pair: everything below is read off this one set
Verdicts(kn, km) == { <<Shell(p[3], p[4]), PairVerdict(p[1], p[2], p[3], p[4])>> : p \in NearPairs(kn, km) }
VerdictOf(vs) == Combine({ v[2] : v \in vs })
\* smallest shell in which an overlapping image is found (shell 0: two copies in the home cell;
\* NoShell: no overlapping pair at all)
NoShell == 99
MinShellOf(vs) == LET os == { v[1] : v \in { w \in vs : w[2] = "overlap" } }
                  IN IF os = {} THEN NoShell ELSE MinOf(os)
LatticeVerdict == VerdictOf(Verdicts(KN, KM))
MinShell == MinShellOf(Verdicts(KN, KM))
\* a search limited to k shells in both directions finds an overlap iff 0 < MinShell <= k
DetectorFinds(k) == MinShell <= k
\* a k-shell search is wrong on this state
Critical(k) == MinShell # NoShell /\ MinShell > k
\* the finite bound is a bound: two more shells change nothing
ShellBoundOK == VerdictOf(Verdicts(KN + 2, KM + 2)) = LatticeVerdict

-----------------------------------------------------------------------------
(* C02: the hard score as an exact rational (times pi for disjoint discs).  *)
Shoelace2(V) == LET n == Len(V)
                    RECURSIVE sum(_)
                    sum(i) == IF i > n THEN 0
                              ELSE V[i][1] * V[(i % n) + 1][2] - V[(i % n) + 1][1] * V[i][2] + sum(i + 1)
                IN Abs(sum(1))
DiscsDisjoint == \A i, j \in 1..Len(sh.discs) : i < j =>
                    LET dx == sh.discs[i][1] - sh.discs[j][1]
                        dy == sh.discs[i][2] - sh.discs[j][2]
                        rr == sh.discs[i][3] + sh.discs[j][3]
                    IN dx * dx + dy * dy >= rr * rr
RECURSIVE SumR2(_)
SumR2(i) == IF i > Len(sh.discs) THEN 0 ELSE sh.discs[i][3] * sh.discs[i][3] + SumR2(i + 1)
\* <<numerator, denominator, unit>>: score = unit * numerator / denominator
HardScore ==
  IF sh.kind = "poly" THEN <<N * Shoelace2(sh.verts), 2 * CellArea, "one">>
  ELSE IF DiscsDisjoint THEN <<N * SumR2(1), CellArea, "pi">>
  ELSE <<0, 1, "lens">>
\* a packing cannot be denser than the plane: 157/50 < pi
C02Model == (LatticeVerdict # "overlap") =>
               \/ HardScore[3] = "one" /\ HardScore[1] <= HardScore[2]
               \/ HardScore[3] = "pi" /\ HardScore[1] * 157 <= HardScore[2] * 50
               \/ HardScore[3] = "lens"

-----------------------------------------------------------------------------
(* C04: the placement set has the symmetry of the group.  For every         *)
(* reference operation q: q is an isometry of the cell (W^T G W = G with G  *)
(* the Gram matrix of A, B) and maps the set of placements onto itself      *)
(* modulo the lattice, linear parts included.                               *)
Gram == << ax * ax, ax * bx, ax * bx, bx * bx + by * by >>
GramInvariant(q) ==
  LET a == q[1] b == q[2] c == q[3] d == q[4]
      g11 == Gram[1] g12 == Gram[2] g22 == Gram[4]
  IN /\ a * a * g11 + 2 * a * c * g12 + c * c * g22 = g11
     /\ a * b * g11 + (a * d + b * c) * g12 + c * d * g22 = g12
     /\ b * b * g11 + 2 * b * d * g12 + d * d * g22 = g22
\* q applied to placement k: position q.f_k, linear part W_q L_k
Image(q, k) == << Wrap(q[1] * Frac(k)[1] + q[2] * Frac(k)[2] + q[5] * (D \div 2)),
                  Wrap(q[3] * Frac(k)[1] + q[4] * Frac(k)[2] + q[6] * (D \div 2)),
                  q[1] * Lin(k)[1] + q[2] * Lin(k)[3], q[1] * Lin(k)[2] + q[2] * Lin(k)[4],
                  q[3] * Lin(k)[1] + q[4] * Lin(k)[3], q[3] * Lin(k)[2] + q[4] * Lin(k)[4] >>
PlacementSet == { Placements[k] : k \in 1..N }
Symmetric == \A i \in 1..N :
                /\ GramInvariant(Op(i))
                /\ \A k \in 1..N : Image(Op(i), k) \in PlacementSet

-----------------------------------------------------------------------------
(* Multi-site re-description.  The crystal of group g with one occupied    *)
(* site is also a p1 crystal with N occupied sites: site k sits at Frac(k) *)
(* and is turned by the rotation whose first column is the first column of *)
(* Lin(k).  For a proper operation that rotation is Lin(k) itself; for an  *)
(* improper one Lin(k) = RotLin(k) . diag(1, -1), so the body drawn is the *)
(* same exactly when the shape is its own mirror image in its local x axis *)
(* (squares, kites, circles, straight trimers; not the chiral quad).  Every *)
(* observable of the crystal (verdict, score, set of bodies) then has to   *)
(* be the same for both descriptions: the real code is run on both         *)
(* (PackedState with N sites through its multi-site loops).                *)
RotLin(k) == << Lin(k)[1], -Lin(k)[3], Lin(k)[3], Lin(k)[1] >>
ApplyLin(L, v) == << L[1] * v[1] + L[2] * v[2], L[3] * v[1] + L[4] * v[2] >>
Body(L) == IF sh.kind = "poly"
           THEN { ApplyLin(L, sh.verts[i]) : i \in 1..Len(sh.verts) }
           ELSE { << ApplyLin(L, <<sh.discs[i][1], sh.discs[i][2]>>), sh.discs[i][3] >> : i \in 1..Len(sh.discs) }
SameBody(k) == Body(Lin(k)) = Body(RotLin(k))
Proper(k) == Op(k)[1] * Op(k)[4] - Op(k)[2] * Op(k)[3] = 1
MirrorSym == Body(<<1, 0, 0, -1>>) = Body(<<1, 0, 0, 1>>)
Redescribable == \A k \in 1..N : SameBody(k)
\* <<x, y, cos, sin>> of site k of the p1 description (positions over D, direction over Hh)
AsSites == [k \in 1..N |-> << Frac(k)[1], Frac(k)[2], Lin(k)[1], Lin(k)[3] >>]
SitesLemma == /\ \A k \in 1..N : Proper(k) => Lin(k) = RotLin(k)
              /\ \A k \in 1..N : Lin(k)[1] * Lin(k)[1] + Lin(k)[3] * Lin(k)[3] = Hh * Hh
              /\ MirrorSym => Redescribable
              /\ (\A k \in 1..N : Proper(k)) => Redescribable

-----------------------------------------------------------------------------
(* C03: the energy of the infinite crystal per molecule, for a pair energy *)
(* that depends on the displacement of the two molecule centres only and   *)
(* has finite support: W(d2) = max(0, cw - d2), d2 the squared distance in *)
(* world units (an integer).  Every pair of distinct molecule images with  *)
(* one member in the home cell is counted once: the sum over ordered       *)
(* pairs (home copy, any other image) counts each unordered pair twice,    *)
(* hence ProbeScore = -(1/N) * 1/2 * OrderedSum.  Operators are            *)
(* parameterised by the site so that re-descriptions of the same crystal   *)
(* can be compared.  (Centres only: use orientation index 1, Hh = 1.)      *)
FracAt(k, x, y) == << Wrap(Op(k)[1] * x + Op(k)[2] * y + Op(k)[5] * (D \div 2)),
                      Wrap(Op(k)[3] * x + Op(k)[4] * y + Op(k)[6] * (D \div 2)) >>
ProbeKM(rw) == rw \div (D * by) + 2
ProbeKN(rw) == (rw * (Abs(bx) + by)) \div (D * ax * by) + 2
\* displacements (world units) from home copy k1 to every other image within the box |.| <= rw
Displacements(x, y, rw) ==
  UNION { LET dfx == FracAt(k2, x, y)[1] - FracAt(k1, x, y)[1]
              dfy == FracAt(k2, x, y)[2] - FracAt(k1, x, y)[2]
              ms == { m \in -ProbeKM(rw)..ProbeKM(rw) : Abs((dfy + m * D) * by) <= rw }
          IN UNION { { <<k1, k2, n, m, (dfx + n * D) * ax + (dfy + m * D) * bx, (dfy + m * D) * by>> :
                         n \in { n \in -ProbeKN(rw)..ProbeKN(rw) :
                                   /\ Abs((dfx + n * D) * ax + (dfy + m * D) * bx) <= rw
                                   /\ ~(k1 = k2 /\ n = 0 /\ m = 0) } } : m \in ms }
          : k1 \in 1..N, k2 \in 1..N }
Well(cw, dx, dy) == IF dx * dx + dy * dy < cw THEN cw - (dx * dx + dy * dy) ELSE 0
RECURSIVE SumWell(_, _)
SumWell(PP, cw) == IF PP = {} THEN 0
                   ELSE LET p == CHOOSE q \in PP : TRUE IN Well(cw, p[5], p[6]) + SumWell(PP \ {p}, cw)
\* sum over ordered pairs; ProbeScore = -OrderedSum / (2 N)
OrderedSum(x, y, cw, rw) == SumWell(Displacements(x, y, rw), cw)
\* number of ordered pairs inside the well (the coordination the sum sees)
InWell(x, y, cw, rw) == Cardinality({ p \in Displacements(x, y, rw) : p[5] * p[5] + p[6] * p[6] < cw })

(* Re-descriptions of the same crystal: another member of the orbit taken  *)
(* as the site; the origin moved by half a lattice vector when that maps   *)
(* the set of centres onto itself up to the same translation.               *)
CentreSet(x, y) == { FracAt(k, x, y) : k \in 1..N }
ShiftSet(PP, tx, ty) == { << Wrap(p[1] + tx), Wrap(p[2] + ty) >> : p \in PP }
HalfShifts == { <<D \div 2, 0>>, <<0, D \div 2>>, <<D \div 2, D \div 2>> }
\* <<x2, y2, kind>>
Redescriptions ==
  { <<FracAt(k, sx, sy)[1], FracAt(k, sx, sy)[2], "orbit">> : k \in 2..N } \cup
  { <<sx + D, sy, "lattice">>, <<sx, sy - D, "lattice">> } \cup
  { <<Wrap(sx + t[1]), Wrap(sy + t[2]), "origin">> : t \in
       { t \in HalfShifts : CentreSet(sx + t[1], sy + t[2]) = ShiftSet(CentreSet(sx, sy), t[1], t[2]) } }
\* the score is a property of the crystal, not of its description
RedescriptionOK(cw, rw) == \A r \in Redescriptions :
                             OrderedSum(r[1], r[2], cw, rw) = OrderedSum(sx, sy, cw, rw)

-----------------------------------------------------------------------------
(* The optimiser's moves on the grid.  Families: oblique cells may shear    *)
(* and change the side ratio; rectangular cells keep bx = 0.                *)
CONSTANTS GroupSet, ShapeSet, AxSet, BSet, SiteSet, OrientSet

FamilyOK == CASE FamilyOf(g) = "Monoclinic" -> bx >= 0 /\ 3 * by * by >= bx * bx   \* angle in [30, 90] degrees
              [] FamilyOf(g) = "Tetragonal" -> bx = 0 /\ by = ax
              [] OTHER -> bx = 0
RatioOK == /\ 100 * (bx * bx + by * by) >= ax * ax            \* ratio >= 0.1
           /\ bx * bx + by * by <= ax * ax                     \* ratio <= 1
StateOK == FamilyOK /\ RatioOK /\ by > 0 /\ ax > 0

\* one initial state per (group, shape): any admissible cell of the sets; the moves reach the rest
CellOK(a, b) == /\ (FamilyOf(g) = "Monoclinic" => (b[1] >= 0 /\ 3 * b[2] * b[2] >= b[1] * b[1]))
                /\ (FamilyOf(g) # "Monoclinic" => b[1] = 0)
                /\ (FamilyOf(g) = "Tetragonal" => b[2] = a)
                /\ 100 * (b[1] * b[1] + b[2] * b[2]) >= a * a /\ b[1] * b[1] + b[2] * b[2] <= a * a
                /\ b[2] > 0 /\ a > 0
Init == /\ g \in GroupSet /\ sh \in ShapeSet
        /\ LET cand == { c \in AxSet \X BSet : CellOK(c[1], c[2]) }
           IN /\ cand # {}
              /\ LET c == CHOOSE c \in cand : TRUE IN ax = c[1] /\ bx = c[2][1] /\ by = c[2][2]
        /\ sx = MinOf(SiteSet) /\ sy = MinOf(SiteSet) /\ o = MinOf(OrientSet)

MoveA == \E a2 \in AxSet : ax' = a2 /\ UNCHANGED <<g, sh, bx, by, sx, sy, o>>
\* a square cell has one length
MoveT == FamilyOf(g) = "Tetragonal" /\ \E a2 \in AxSet : ax' = a2 /\ by' = a2 /\ UNCHANGED <<g, sh, bx, sx, sy, o>>
MoveB == \E b2 \in BSet : bx' = b2[1] /\ by' = b2[2] /\ UNCHANGED <<g, sh, ax, sx, sy, o>>
MoveX == \E x2 \in SiteSet : sx' = x2 /\ UNCHANGED <<g, sh, ax, bx, by, sy, o>>
MoveY == \E y2 \in SiteSet : sy' = y2 /\ UNCHANGED <<g, sh, ax, bx, by, sx, o>>
MoveO == \E o2 \in OrientSet : o' = o2 /\ UNCHANGED <<g, sh, ax, bx, by, sx, sy>>
Next == (MoveA \/ MoveB \/ MoveT \/ MoveX \/ MoveY \/ MoveO) /\ StateOK'
Spec == Init /\ [][Next]_vars
=============================================================================
