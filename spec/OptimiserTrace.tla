--------------------------- MODULE OptimiserTrace ---------------------------
(***************************************************************************)
(* Judge of recorded executions of the real optimiser.                     *)
(*                                                                         *)
(* The conformance harness records, for every run of optimise_state, the   *)
(* hook events of src/optimisation.rs (cfg packing_verif), every score()   *)
(* call seen by a wrapper around the state, and the true contents of the   *)
(* parameter cells at each of those moments.  Values are projected to      *)
(* tokens (bit-exact identity) with a fixed-point magnitude table, scores  *)
(* to ranks, temperatures to a class and a fixed-point logarithm.          *)
(*                                                                         *)
(* This module replays the log deterministically: every variable of        *)
(* Optimiser is assigned from the logged observation (or, for the ghosts,  *)
(* from the history).  The properties of Optimiser are then checked on     *)
(* that behaviour, one named action property / invariant per property id,  *)
(* and the whole step relation Optimiser!NextW as `Conform`.               *)
(***************************************************************************)
EXTENDS Integers, Sequences, FiniteSets, TLC, Json, IOUtils

Log == ndJsonDeserialize(IOEnv.TRACE)
TokFx == ndJsonDeserialize(IOEnv.TOKENS)[1].fx

VARIABLES cfg, val, old, cur, kt, cap, rej, conv, t, loop, pc, idx, new, metro, lstart, imp,
          early, fin, base, lastAcc, accCur, evals, dl, lastKt, stage, hist, ref,
          moved,   \* size of the last proposal's move in millionths of the configured maximum
                   \* (measured by the harness on the f64 values: a finer scale than Fx)
          outside, \* number of parameters strictly outside their declared range by exact f64 comparison
          stale,   \* evaluations so far whose score differed from the score of a fresh copy of the
                   \* same state (the state written to JSON and read back), where the harness compared
          l        \* number of log lines consumed

Undef == -1
Bad == -2
TFx(tok) == TokFx[tok]
\* maxd and cap are in micro-units; the product is taken on milli-units to stay within 32 bits
TMoveCap(maxd, c, capMax) == (maxd \div 1000 + 1) * (c \div 1000 + 1)
TAdaptOK(c, c2, r, inner, capMax) == TRUE
TSmallOK(small, c, ls, thr) == TRUE
TLandSet(v) == (-2)..Log[1].maxRank

O == INSTANCE Optimiser WITH Fx <- TFx, MoveCap <- TMoveCap, AdaptOK <- TAdaptOK,
        SmallOK <- TSmallOK, LandSet <- TLandSet, Tol <- 2, ConvLimit <- 5, Variant <- "spec",
        Configs <- {}, Values <- {}, Scores <- {}

ovars == O!vars
tvars == <<ovars, moved, outside, stale, l>>

\* program counter implied by what the implementation did next
PcBefore(k) ==
  IF k > Len(Log) THEN "done"
  ELSE LET e == Log[k].ev IN
       CASE e = "start" -> "done"
         [] e = "begin" -> "new"
         [] e = "propose" -> "propose"
         [] e = "eval" -> "eval"
         [] e = "draw" -> "draw"
         [] e = "decide" -> "decide"
         [] e = "endloop" -> "endloop"
         [] e = "final" -> "final"
         [] e = "panic" -> "panic"
         [] OTHER -> "done"

KtRec(k) == [cls |-> k.cls, lvl |-> k.lvl]

StartVars(e, st) ==
  /\ cfg' = e.cfg
  /\ val' = e.val /\ old' = e.val /\ base' = e.val /\ lastAcc' = e.val
  /\ cur' = Undef /\ kt' = O!KtOf(e.cfg) /\ cap' = e.cfg.capMax
  /\ rej' = 0 /\ conv' = 0 /\ t' = 0 /\ loop' = 1 /\ pc' = "new"
  /\ idx' = 1 /\ new' = Undef /\ metro' = "no" /\ lstart' = Undef /\ imp' = "na"
  /\ early' = FALSE /\ fin' = {} /\ accCur' = Undef /\ evals' = 0 /\ dl' = {}
  /\ lastKt' = O!KtOf(e.cfg) /\ stage' = st
  /\ hist' = <<>> /\ ref' = IF e.cfg.prefixRef THEN hist ELSE <<>>

\* line 1 is a header, line 2 the first start event
Init ==
  LET e == Log[2] IN
  /\ l = 2
  /\ cfg = e.cfg
  /\ val = e.val /\ old = e.val /\ base = e.val /\ lastAcc = e.val
  /\ cur = Undef /\ kt = O!KtOf(e.cfg) /\ cap = e.cfg.capMax
  /\ rej = 0 /\ conv = 0 /\ t = 0 /\ loop = 1 /\ pc = "new"
  /\ idx = 1 /\ new = Undef /\ metro = "no" /\ lstart = Undef /\ imp = "na"
  /\ early = FALSE /\ fin = {} /\ accCur = Undef /\ evals = 0 /\ dl = {}
  /\ lastKt = O!KtOf(e.cfg) /\ stage = 1 /\ hist = <<>> /\ ref = <<>> /\ moved = 0 /\ outside = e.out
  /\ stale = 0

Start(e) ==
  /\ e.ev = "start"
  /\ StartVars(e, IF e.chained THEN stage + 1 ELSE 1)

Begin(e) ==
  /\ e.ev = "begin"
  /\ pc' = PcBefore(l + 2)
  /\ IF O!Defined(e.score)
     THEN cur' = e.score /\ lstart' = e.score /\ accCur' = e.score /\ UNCHANGED fin
     ELSE fin' = {e.score} /\ UNCHANGED <<cur, lstart, accCur>>
  /\ UNCHANGED <<cfg, val, old, kt, cap, rej, conv, t, loop, idx, new, metro, imp, early,
                 base, lastAcc, evals, dl, lastKt, stage, hist, ref>>

Propose(e) ==
  /\ e.ev = "propose"
  /\ base' = val
  /\ val' = e.val
  /\ idx' = e.i
  /\ old' = [old EXCEPT ![e.i] = e.before]
  /\ lastKt' = kt
  /\ pc' = PcBefore(l + 2)
  /\ UNCHANGED <<cfg, cur, kt, cap, rej, conv, t, loop, new, metro, lstart, imp, early, fin,
                 lastAcc, accCur, evals, dl, stage, hist, ref>>

Eval(e) ==
  /\ e.ev = "eval"
  /\ val' = e.val
  /\ new' = e.score
  /\ evals' = evals + 1
  /\ hist' = IF cfg.keepHist THEN Append(hist, <<val, e.score>>) ELSE hist
  /\ pc' = PcBefore(l + 2)
  /\ UNCHANGED <<cfg, old, cur, kt, cap, rej, conv, t, loop, idx, metro, lstart, imp, early,
                 fin, base, lastAcc, accCur, dl, lastKt, stage, ref>>

Draw(e) ==
  /\ e.ev = "draw"
  /\ metro' = e.metro
  /\ pc' = PcBefore(l + 2)
  /\ UNCHANGED <<cfg, val, old, cur, kt, cap, rej, conv, t, loop, idx, new, lstart, imp, early,
                 fin, base, lastAcc, accCur, evals, dl, lastKt, stage, hist, ref>>

\* accepted iff the implementation did not count a rejection
Decide(e) ==
  /\ e.ev = "decide"
  /\ val' = e.val
  /\ cur' = e.cur
  /\ rej' = e.rej
  /\ kt' = KtRec(e.kt)
  /\ t' = t + 1
  \* accCur: the score the wrapper saw for the proposal that was kept (not the hook's belief)
  /\ IF e.rej = rej THEN lastAcc' = e.val /\ accCur' = new
                    ELSE UNCHANGED <<lastAcc, accCur>>
  /\ pc' = PcBefore(l + 2)
  /\ UNCHANGED <<cfg, old, cap, conv, loop, idx, new, metro, lstart, imp, early, fin, base,
                 evals, dl, lastKt, stage, hist, ref>>

EndLoop(e) ==
  /\ e.ev = "endloop"
  /\ kt' = KtRec(e.kt)
  /\ dl' = IF dl = {} /\ kt.cls = "pos" /\ e.kt.cls = "pos" THEN {e.kt.lvl - kt.lvl} ELSE dl
  /\ imp' = IF ~cfg.convOn THEN "na" ELSE IF e.small THEN "small" ELSE "big"
  /\ conv' = e.conv
  /\ early' = e.early
  /\ pc' = IF e.early THEN "done" ELSE PcBefore(l + 2)
  /\ IF e.early
     THEN UNCHANGED <<cap, loop, t, rej, lstart>>
     ELSE cap' = e.cap /\ loop' = loop + 1 /\ t' = 0 /\ rej' = 0 /\ lstart' = cur
  /\ UNCHANGED <<cfg, val, old, cur, idx, new, metro, fin, base, lastAcc, accCur, evals,
                 lastKt, stage, hist, ref>>

Final(e) ==
  /\ e.ev = "final"
  /\ val' = e.val
  /\ fin' = {e.score}
  /\ pc' = PcBefore(l + 2)
  /\ UNCHANGED <<cfg, old, cur, kt, cap, rej, conv, t, loop, idx, new, metro, lstart, imp,
                 early, base, lastAcc, accCur, evals, dl, lastKt, stage, hist, ref>>

Observe(e) ==
  /\ e.ev = "observe"
  /\ fin' = {e.score}
  /\ UNCHANGED <<cfg, val, old, cur, kt, cap, rej, conv, t, loop, pc, idx, new, metro, lstart,
                 imp, early, base, lastAcc, accCur, evals, dl, lastKt, stage, hist, ref>>

Panic(e) ==
  /\ e.ev = "panic"
  /\ pc' = "panic"
  /\ UNCHANGED <<cfg, val, old, cur, kt, cap, rej, conv, t, loop, idx, new, metro, lstart, imp,
                 early, fin, base, lastAcc, accCur, evals, dl, lastKt, stage, hist, ref>>

Next ==
  /\ l < Len(Log)
  /\ l' = l + 1
  /\ moved' = IF Log[l + 1].ev = "propose" THEN Log[l + 1].rel ELSE moved
  /\ outside' = IF Log[l + 1].ev \in {"start", "propose", "eval", "decide", "final"} THEN Log[l + 1].out ELSE outside
  /\ stale' = IF Log[l + 1].ev = "eval" /\ ~Log[l + 1].fresh THEN stale + 1 ELSE stale
  /\ LET e == Log[l + 1] IN
       Start(e) \/ Begin(e) \/ Propose(e) \/ Eval(e) \/ Draw(e) \/ Decide(e) \/ EndLoop(e)
       \/ Final(e) \/ Observe(e) \/ Panic(e)

Spec == Init /\ [][Next]_tvars

-----------------------------------------------------------------------------
\* the properties of Optimiser, by property id
C05 == O!C05
C05Result == O!C05Result
C06 == O!C06
C06Done == O!C06Done
C07 == O!C07
C08 == O!C08
C08Range == cfg.checkRange => O!C08Range
\* the same by exact comparison of the f64 values with the declared bounds (no fixed-point slack)
C08Exact == cfg.checkRange => outside = 0
C08Done == O!C08Done
C08Held == O!C08Held
C04Frozen == cfg.checkRange => O!C04Frozen
C18 == O!C18
C18Finish == O!C18Finish
C18Zero == O!C18Zero
C18Governs == O!C18Governs
C19 == O!C19
C19Cap == O!C19Cap
\* C19 on a scale relative to the configured maximum (one part in a million), so that an excess
\* is seen however small max_step_size is
C19Rel == moved <= 1000001
C20NoPanic == O!C20NoPanic
C20Work == O!C20Work
C20Conv == O!C20Conv
C20Prefix == O!C20Prefix
\* C11 (and C02, C03): the score is a function of the state as it is - a state object with a
\* history behind it scores exactly like a fresh copy read back from its JSON form
C11Fresh == stale = 0
C11Same == O!C11Same
C11SameDone == O!C11SameDone

\* the whole specification: every recorded step is a step of Optimiser
Conform == [][O!NextW]_ovars

\* the log was consumed to its end
Accepted ==
  IF TLCGet("stats").diameter = Len(Log) - 1 THEN TRUE
  ELSE Print(<<"TRACE-NOT-CONSUMED", TLCGet("stats").diameter, Len(Log)>>, FALSE)
=============================================================================
