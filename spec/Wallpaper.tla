------------------------------ MODULE Wallpaper ------------------------------
(***************************************************************************)
(* The seven plane groups pypacking supports (src/wallpaper.rs), as        *)
(* reference tables of general positions in the standard setting           *)
(* (International Tables A), with the group axioms they must satisfy.      *)
(*                                                                         *)
(* An operation is <<a, b, c, d, s, t>>: (x, y) |-> (a x + b y + s/2,      *)
(* c x + d y + t/2); translations are kept doubled so that everything is   *)
(* an integer.  Two operations are the same modulo the lattice when their  *)
(* linear parts agree and their doubled translations agree modulo 2.       *)
(*                                                                         *)
(* This module is independent of the implementation.  MC_Wallpaper reads   *)
(* the implementation's tables and checks them against it (property C16);  *)
(* Site, Crystal and Pipeline use it as the meaning of a group name.       *)
(***************************************************************************)
EXTENDS Integers, Sequences, FiniteSets

Groups == {"p1", "p2", "p1m1", "p1g1", "p2mm", "p2mg", "p2gg"}

Id == <<1, 0, 0, 1, 0, 0>>

\* general positions, in the order of the International Tables
RefOps(g) ==
  CASE g = "p1"   -> << Id >>
    [] g = "p2"   -> << Id, <<-1, 0, 0, -1, 0, 0>> >>
    [] g = "p1m1" -> << Id, <<-1, 0, 0, 1, 0, 0>> >>
    [] g = "p1g1" -> << Id, <<-1, 0, 0, 1, 0, 1>> >>
    [] g = "p2mm" -> << Id, <<-1, 0, 0, -1, 0, 0>>, <<-1, 0, 0, 1, 0, 0>>, <<1, 0, 0, -1, 0, 0>> >>
    [] g = "p2mg" -> << Id, <<-1, 0, 0, -1, 0, 0>>, <<-1, 0, 0, 1, 1, 0>>, <<1, 0, 0, -1, 1, 0>> >>
    [] g = "p2gg" -> << Id, <<-1, 0, 0, -1, 0, 0>>, <<-1, 0, 0, 1, 1, 1>>, <<1, 0, 0, -1, 1, 1>> >>

RefFamily(g) == IF g \in {"p1", "p2"} THEN "Monoclinic" ELSE "Orthorhombic"

(* Groups a user of the library can build himself (WallpaperGroup / WyckoffSite values are plain *)
(* data): the same operations listed in another order, centred cells (an operation that is a    *)
(* pure translation besides the identity) and a four-fold axis (linear parts that are not        *)
(* symmetric matrices).  Crystal.tla gives them the same meaning as the built-in ones.           *)
UserGroups == {"p2r", "p2mgr", "c1m1", "c2mm", "p4"}
UserOps(g) ==
  CASE g = "p2r"   -> << <<-1, 0, 0, -1, 0, 0>>, Id >>
    [] g = "p2mgr" -> << <<-1, 0, 0, 1, 1, 0>>, <<1, 0, 0, -1, 1, 0>>, <<-1, 0, 0, -1, 0, 0>>, Id >>
    [] g = "c1m1"  -> << Id, <<-1, 0, 0, 1, 0, 0>>, <<1, 0, 0, 1, 1, 1>>, <<-1, 0, 0, 1, 1, 1>> >>
    [] g = "c2mm"  -> << Id, <<-1, 0, 0, -1, 0, 0>>, <<-1, 0, 0, 1, 0, 0>>, <<1, 0, 0, -1, 0, 0>>,
                         <<1, 0, 0, 1, 1, 1>>, <<-1, 0, 0, -1, 1, 1>>, <<-1, 0, 0, 1, 1, 1>>, <<1, 0, 0, -1, 1, 1>> >>
    [] g = "p4"    -> << Id, <<-1, 0, 0, -1, 0, 0>>, <<0, -1, 1, 0, 0, 0>>, <<0, 1, -1, 0, 0, 0>> >>
UserFamily(g) == CASE g = "p2r" -> "Monoclinic" [] g = "p4" -> "Tetragonal" [] OTHER -> "Orthorhombic"

Ops(g) == IF g \in Groups THEN RefOps(g) ELSE UserOps(g)
FamilyOf(g) == IF g \in Groups THEN RefFamily(g) ELSE UserFamily(g)
Order(g) == Len(Ops(g))

\* expected content: <<two-folds, mirrors, glides>>
RefContent(g) ==
  CASE g = "p1" -> <<0, 0, 0>> [] g = "p2" -> <<1, 0, 0>> [] g = "p1m1" -> <<0, 1, 0>>
    [] g = "p1g1" -> <<0, 0, 1>> [] g = "p2mm" -> <<1, 2, 0>> [] g = "p2mg" -> <<1, 1, 1>>
    [] g = "p2gg" -> <<1, 0, 2>>

-----------------------------------------------------------------------------
Mod2(n) == n % 2
Norm(o) == <<o[1], o[2], o[3], o[4], Mod2(o[5]), Mod2(o[6])>>
\* (g o h)(p) = g(h(p))
Compose(g, h) ==
  << g[1] * h[1] + g[2] * h[3], g[1] * h[2] + g[2] * h[4],
     g[3] * h[1] + g[4] * h[3], g[3] * h[2] + g[4] * h[4],
     g[1] * h[5] + g[2] * h[6] + g[5], g[3] * h[5] + g[4] * h[6] + g[6] >>
Det(o) == o[1] * o[4] - o[2] * o[3]
NormSet(S) == { Norm(o) : o \in S }

IsTwoFold(o) == o[1] = -1 /\ o[2] = 0 /\ o[3] = 0 /\ o[4] = -1
\* a reflection in an axis-parallel line: the translation along the line decides mirror or glide
IsReflection(o) == Det(o) = -1 /\ o[2] = 0 /\ o[3] = 0
AlongAxis(o) == IF o[1] = -1 THEN Mod2(o[6]) ELSE Mod2(o[5])   \* axis parallel to y / to x
IsMirror(o) == IsReflection(o) /\ AlongAxis(o) = 0
IsGlide(o) == IsReflection(o) /\ AlongAxis(o) = 1

Content(S) == << Cardinality({o \in S : IsTwoFold(o)}),
                 Cardinality({o \in S : IsMirror(o)}),
                 Cardinality({o \in S : IsGlide(o)}) >>

(* W leaves every cell of the family invariant: W^T G W = G for the Gram   *)
(* matrix G of every cell.  Oblique cells (G arbitrary) admit only +-1;     *)
(* rectangular cells (G diagonal, two free entries) admit the diagonal      *)
(* matrices with entries +-1.                                               *)
(* Square cells (G = a^2 I): the integer orthogonal matrices.  Hexagonal   *)
(* cells with a 60 degree angle (G proportional to [[2,1],[1,2]]):          *)
(* W^T G W = G written out.                                                 *)
FamilyInvariant(o, fam) ==
  CASE fam = "Monoclinic" -> (o[1] = o[4]) /\ o[1] \in {1, -1} /\ o[2] = 0 /\ o[3] = 0
    [] fam = "Orthorhombic" -> o[1] \in {1, -1} /\ o[4] \in {1, -1} /\ o[2] = 0 /\ o[3] = 0
    [] fam = "Tetragonal" -> /\ o[1] * o[1] + o[3] * o[3] = 1 /\ o[2] * o[2] + o[4] * o[4] = 1
                             /\ o[1] * o[2] + o[3] * o[4] = 0
    [] fam = "Hexagonal" -> /\ 2 * o[1] * o[1] + 2 * o[1] * o[3] + 2 * o[3] * o[3] = 2
                            /\ 2 * o[2] * o[2] + 2 * o[2] * o[4] + 2 * o[4] * o[4] = 2
                            /\ 2 * o[1] * o[2] + o[1] * o[4] + o[3] * o[2] + 2 * o[3] * o[4] = 1
    [] OTHER -> FALSE

(* A table offered under a name this module has no reference for (a group  *)
(* added to the library later): the group axioms and the family pairing,   *)
(* without a reference table to compare with.                               *)
IsSomeGroupTable(S, fam) ==
  /\ Norm(Id) \in NormSet(S)
  /\ \A a, b \in S : Norm(Compose(a, b)) \in NormSet(S)
  /\ \A a \in S : \E b \in S : Norm(Compose(a, b)) = Norm(Id)
  /\ Cardinality(NormSet(S)) = Cardinality(S)
  /\ \A a \in S : FamilyInvariant(a, fam)

(* The axioms of C16 for a set S of operations claimed to be group g.       *)
IsGroupTable(S, g, fam) ==
  /\ Norm(Id) \in NormSet(S)
  /\ \A a, b \in S : Norm(Compose(a, b)) \in NormSet(S)
  /\ \A a \in S : \E b \in S : Norm(Compose(a, b)) = Norm(Id)
  /\ Cardinality(NormSet(S)) = Order(g) /\ Cardinality(S) = Order(g)
  /\ Content(NormSet(S)) = RefContent(g)
  /\ fam = RefFamily(g)
  /\ \A a \in S : FamilyInvariant(a, fam)
  /\ NormSet(S) = NormSet({RefOps(g)[i] : i \in 1..Order(g)})

RefSet(g) == {RefOps(g)[i] : i \in 1..Order(g)}
\* the reference tables satisfy their own axioms (checked by TLC, not assumed)
RefOK == \A g \in Groups : IsGroupTable(RefSet(g), g, RefFamily(g))
=============================================================================
