--------------------------- MODULE PipelineTrace ---------------------------
(***************************************************************************)
(* Judge of recorded executions of the replica pipeline: invocations of    *)
(* the real `packing` binary (hooks written to a file by every worker      *)
(* thread, output files, log line, exit status) and in-process runs of the *)
(* same pipeline in rayon pools of several sizes.                          *)
(*                                                                         *)
(* The log is grouped by configuration: all invocations of one group have  *)
(* the same arguments except the number of replications, the number of     *)
(* worker threads and the process they ran in.  Per replica the harness    *)
(* logs the rank of its final score and a token of the digest of every     *)
(* hook event of its three stages; per invocation what was written, what   *)
(* was logged, tokens of the file contents, labels, exit.                  *)
(*                                                                         *)
(* The properties are those of spec/Pipeline.tla, observed from outside:   *)
(*   C09  Deterministic (a replica is a function of configuration and      *)
(*        index: same digest, same score, whatever the schedule), outputs  *)
(*        a function of the arguments, input state unchanged               *)
(*   C10  BestWritten, LoggedIsWritten, Labels, PrefixMonotone             *)
(*   C20  ExitOK / NoPanic                                                 *)
(***************************************************************************)
EXTENDS Integers, Sequences, FiniteSets, TLC, Json, IOUtils

Log == ndJsonDeserialize(IOEnv.TRACE)
MaxR == 256

VARIABLES inv,      \* the invoke record of the current invocation
          known,    \* [0..MaxR -> replica record or unseen] for the current configuration group
          outs,     \* [0..MaxR -> output summary or unseen] by number of replications, same group
          scores,   \* ranks of the replicas of the current invocation, in order of appearance
          out,      \* the output record of the last finished invocation (or none)
          l
vars == <<inv, known, outs, scores, out, l>>

Unseen == [seen |-> FALSE]
NoOut == [ev |-> "none"]

Init == /\ l = 1
        /\ inv = [ev |-> "none", cfg |-> 0]
        /\ known = [r \in 0..MaxR |-> Unseen]
        /\ outs = [n \in 0..MaxR |-> Unseen]
        /\ scores = <<>> /\ out = NoOut

Invoke(e) ==
  /\ e.ev = "invoke"
  /\ inv' = e
  /\ IF e.cfg # inv.cfg
     THEN known' = [r \in 0..MaxR |-> Unseen] /\ outs' = [n \in 0..MaxR |-> Unseen]
     ELSE UNCHANGED <<known, outs>>
  /\ scores' = <<>> /\ out' = NoOut

Replica(e) ==
  /\ e.ev = "replica"
  /\ scores' = Append(scores, e.score)
  /\ known' = IF known[e.r].seen THEN known
              ELSE [known EXCEPT ![e.r] = [seen |-> TRUE, digest |-> e.digest, score |-> e.score]]
  /\ UNCHANGED <<inv, outs, out>>

Output(e) ==
  /\ e.ev = "output"
  /\ out' = e
  /\ outs' = IF e.code = 0 /\ ~outs[inv.reps].seen
             THEN [outs EXCEPT ![inv.reps] = [seen |-> TRUE, written |-> e.written, logged |-> e.logged,
                                              jd |-> e.jsonDigest, sd |-> e.svgDigest]]
             ELSE outs
  /\ UNCHANGED <<inv, known, scores>>

\* a comparison of two states with the ordering the reduction uses (Ord / PartialOrd / PartialEq
\* of the state types); nothing of the pipeline state changes
Cmp(e) == e.ev = "cmp" /\ UNCHANGED <<inv, known, outs, scores, out>>

Next == /\ l < Len(Log)
        /\ l' = l + 1
        /\ LET e == Log[l + 1] IN Invoke(e) \/ Replica(e) \/ Output(e) \/ Cmp(e)
Spec == Init /\ [][Next]_vars

-----------------------------------------------------------------------------
NextEv == Log[l + 1]
IsStep(kind) == l < Len(Log) /\ NextEv.ev = kind

\* C09: a replica is a function of (configuration, index)
C09DetStep == IsStep("replica") =>
                 (known[NextEv.r].seen =>
                    (NextEv.digest = known[NextEv.r].digest /\ NextEv.score = known[NextEv.r].score))
C09Deterministic == [][C09DetStep]_vars
\* the files are a function of the arguments; the input state is never changed
C09OutStep == (IsStep("output") /\ NextEv.code = 0) =>
                 /\ NextEv.inputUnchanged
                 /\ outs[inv.reps].seen =>
                      /\ NextEv.written = outs[inv.reps].written
                      /\ NextEv.jsonDigest = outs[inv.reps].jd
                      /\ NextEv.svgDigest = outs[inv.reps].sd
C09Output == [][C09OutStep]_vars

\* C10
MaxOfSeq(s) == CHOOSE m \in { s[i] : i \in 1..Len(s) } : \A i \in 1..Len(s) : s[i] <= m
C10BestStep == (IsStep("output") /\ NextEv.code = 0) =>
                  /\ Len(scores) = inv.reps
                  /\ inv.reps > 0
                  /\ NextEv.written = MaxOfSeq(scores)
                  /\ (inv.kind = "cli" => NextEv.logged = NextEv.written)
C10Best == [][C10BestStep]_vars
C10LabelStep == (IsStep("output") /\ NextEv.code = 0 /\ inv.kind = "cli") =>
                   /\ NextEv.name = inv.expName
                   /\ NextEv.family = inv.expFamily /\ NextEv.cellFamily = inv.expFamily
                   /\ NextEv.shape = inv.expShape
                   /\ NextEv.copies = inv.expCopies /\ NextEv.symmetries = inv.expCopies
                   /\ NextEv.uses = 9 * inv.expCopies
C10Labels == [][C10LabelStep]_vars
\* more replications never give a lower score
C10MonoStep == (IsStep("output") /\ NextEv.code = 0) =>
                  \A n \in 0..MaxR : outs[n].seen =>
                     /\ (n < inv.reps => outs[n].written <= NextEv.written)
                     /\ (n > inv.reps => outs[n].written >= NextEv.written)
C10Monotone == [][C10MonoStep]_vars

\* The reduction of Pipeline.tla assumes that states are ordered as their scores are (a total
\* preorder: the winner is then independent of the reduction tree).  Recorded comparisons of real
\* states, scores given as ranks: `ord` is the result of cmp (-1, 0, 1), `eq` of ==, `maxb` tells
\* whether max(a, b) returned b.
Sign(x) == IF x < 0 THEN -1 ELSE IF x > 0 THEN 1 ELSE 0
C10CmpStep == IsStep("cmp") =>
                 /\ NextEv.ord = Sign(NextEv.a - NextEv.b)
                 /\ NextEv.eq = (NextEv.a = NextEv.b)
                 /\ NextEv.maxb = (NextEv.b >= NextEv.a)
C10Cmp == [][C10CmpStep]_vars

\* C20, CLI clause
C20CliStep == IsStep("output") =>
                 /\ ~NextEv.panic
                 /\ \/ (NextEv.code = 0 /\ NextEv.json /\ NextEv.svg)
                    \/ (NextEv.code # 0 /\ NextEv.msg)
C20Cli == [][C20CliStep]_vars

Accepted ==
  IF TLCGet("stats").diameter = Len(Log) THEN TRUE
  ELSE Print(<<"TRACE-NOT-CONSUMED", TLCGet("stats").diameter, Len(Log)>>, FALSE)
=============================================================================
