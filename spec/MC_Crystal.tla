----------------------------- MODULE MC_Crystal -----------------------------
(* Bounded instances of Crystal for TLC.  Every reachable grid state is      *)
(* printed as one JSON line (invariant Emit) with the exact observables the  *)
(* real code must reproduce: overlap verdict of the infinite tiling, shells  *)
(* needed, placements, score.  The harness replays every line on the real    *)
(* PackedState (spec -> implementation).                                     *)
EXTENDS Crystal, TLC, Json

PolyShapes == {Square, Kite, Kite2, Quad}
DiscShapes == {Circle, Trimer(5, 15), Trimer(10, 20)}
\* thin molecules: small outer discs far from the centre (long reach, little area)
ThinShapes == {Trimer(1, 200), Trimer(2, 60), Trimer(1, 35)}
AllShapes == PolyShapes \cup DiscShapes

\* cells: rectangular, 3-4-5 sheared, thin
BQuick == {<<0, 20>>, <<0, 28>>, <<0, 14>>, <<12, 16>>, <<9, 12>>}

ModelOK == C15Model /\ Symmetric /\ SitesLemma
\* heavier model-level lemmas, checked in the thorough configuration
LemmasOK == ShellBoundOK /\ C02Model

Emit == LET vs == Verdicts(KN, KM) IN
        PrintT(<<"EMIT", ToJson([
           g |-> g, shape |-> sh.name,
           sr |-> IF sh.name = "trimer" THEN sh.r ELSE 0,
           sd |-> IF sh.name = "trimer" THEN sh.d ELSE 0,
           U |-> U, D |-> D, ax |-> ax, bx |-> bx, by |-> by, sx |-> sx, sy |-> sy,
           c |-> C, s |-> S, h |-> Hh,
           verdict |-> VerdictOf(vs), minshell |-> MinShellOf(vs), near |-> Cardinality(vs),
           kn |-> KN, km |-> KM, n |-> N,
           num |-> HardScore[1], den |-> HardScore[2], unit |-> HardScore[3],
           multi |-> IF Redescribable THEN 1 ELSE 0,
           pl |-> Placements ])>>)

\* C03: wells of range 2.5 and 4 length units (world units: D*U per unit length)
CW1 == ((D * U) * (D * U) * 25) \div 4
RW1 == ((D * U) * 5) \div 2
CW2 == (D * U) * (D * U) * 16
RW2 == (D * U) * 4
ProbeOK == RedescriptionOK(CW1, RW1)
EmitProbe == PrintT(<<"EMIT", ToJson([
           g |-> g, U |-> U, D |-> D, ax |-> ax, bx |-> bx, by |-> by, sx |-> sx, sy |-> sy, n |-> N,
           cw1 |-> CW1, sum1 |-> OrderedSum(sx, sy, CW1, RW1), in1 |-> InWell(sx, sy, CW1, RW1),
           cw2 |-> CW2, sum2 |-> OrderedSum(sx, sy, CW2, RW2), in2 |-> InWell(sx, sy, CW2, RW2),
           redesc |-> Redescriptions ])>>)

\* C11: what the SVG of the state must draw: every placement (fill blue) and its 8 nearest
\* lattice images (fill green), as the entries of matrix(a b c d e f) = (l11 l21 l12 l22 px py);
\* positions multiplied by D*U*h, linear parts by h
SvgUses == [k \in 1..N |-> [lin |-> Lin(k),
                             at |-> { <<n, m, Pos(k, n, m)[1], Pos(k, n, m)[2]>> : n \in -1..1, m \in -1..1 }]]
EmitSvg == PrintT(<<"EMIT", ToJson([
           g |-> g, shape |-> sh.name,
           sr |-> IF sh.name = "trimer" THEN sh.r ELSE 0,
           sd |-> IF sh.name = "trimer" THEN sh.d ELSE 0,
           U |-> U, D |-> D, ax |-> ax, bx |-> bx, by |-> by, sx |-> sx, sy |-> sy,
           c |-> C, s |-> S, h |-> Hh, n |-> N, uses |-> SvgUses,
           multi |-> IF Redescribable THEN 1 ELSE 0, sites |-> AsSites,
           cells |-> { <<n, m, D * (n * ax + m * bx), D * m * by>> : n \in -1..1, m \in -1..1 } ])>>)

\* placements only (cheap): used where the overlap verdict is not needed
EmitPlacements == PrintT(<<"EMIT", ToJson([
           g |-> g, shape |-> sh.name,
           sr |-> IF sh.name = "trimer" THEN sh.r ELSE 0,
           sd |-> IF sh.name = "trimer" THEN sh.d ELSE 0,
           U |-> U, D |-> D, ax |-> ax, bx |-> bx, by |-> by, sx |-> sx, sy |-> sy,
           c |-> C, s |-> S, h |-> Hh, verdict |-> "na", minshell |-> 99, near |-> 0,
           kn |-> 0, km |-> 0, n |-> N, num |-> 0, den |-> 1, unit |-> "na",
           multi |-> IF Redescribable THEN 1 ELSE 0,
           pl |-> Placements ])>>)
=============================================================================
