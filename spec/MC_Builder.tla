---------------------------- MODULE MC_Builder ----------------------------
(* Script enumeration for the replay of Builder.tla on the real BuildOptimiser:  *)
(* one line per complete script (MaxOps operations, the last one a build).        *)
EXTENDS Builder, Json
Emit == (Len(ops) = MaxOps /\ Built) => PrintT(<<"EMIT", ToJson([ops |-> ops])>>)
=============================================================================
