------------------------------ MODULE MC_Trimer ------------------------------
EXTENDS Trimer, TLC, Json
Emit == PrintT(<<"EMIT", ToJson([r |-> r, d |-> d, Q |-> Q, s |-> S, c |-> C, h |-> Hh,
                                  case |-> Case, r12 |-> Rel(1, 2), r13 |-> Rel(1, 3), r23 |-> Rel(2, 3),
                                  num |-> AreaNum, den |-> AreaDen])>>)
=============================================================================
