SPECIFICATION Spec
CONSTANTS
  Variant = "spec"
  ConvLimit = 1
  StepsSet = {0, 1, 3, 4}
  InnerSet = {0, 1, 2, 5}
INVARIANTS TypeOK C06Done C08Range C08Done C18Finish C19Cap C20NoPanic C20Work
PROPERTIES C05 C06 C07 C08 C18 C19 C20Conv WitnessForm
CHECK_DEADLOCK FALSE
