------------------------------ MODULE Pipeline ------------------------------
(***************************************************************************)
(* The command line pipeline of pypacking (src/main.rs, analyse_state):    *)
(* `replications` replicas of a three-stage optimisation chain, mapped in  *)
(* parallel over a pool of worker threads (rayon), reduced with max(),     *)
(* logged, written as JSON and SVG, exit status.                           *)
(*                                                                         *)
(* Memory is modelled at the grain at which the parameter cells            *)
(* (basis.rs, SharedValue: an UnsafeCell declared Send + Sync by hand) are *)
(* read and written: a heap of cells; a state is a set of cells; a stage   *)
(* step is a Read of the replica's cell followed by a Write, and steps of  *)
(* different workers interleave freely.  Clone allocates fresh cells       *)
(* (variant "shallowClone": it aliases the input's cells).                 *)
(*                                                                         *)
(* The proposal written in step k of stage s of replica r is a function    *)
(* Prop(value read, seed, s, k) - the per-replica generator is seeded with *)
(* the replica index, so the whole chain is a function of (input, index).  *)
(*                                                                         *)
(* Properties: C09 (Ownership, InputUnchanged, Deterministic), C10         *)
(* (BestWritten, LoggedIsWritten, ReduceTreeIndependent, PrefixMonotone),  *)
(* C20's CLI clause (ExitOK, NoPanic, Terminates).                         *)
(***************************************************************************)
EXTENDS Integers, Sequences, FiniteSets

CONSTANTS R,          \* replications requested (may be 0)
          W,          \* worker threads
          K,          \* steps per stage
          Stages,     \* 3 in the program
          M,          \* value domain 0..M-1
          Variant,    \* "spec" | "shallowClone" | "firstMax" | "unseeded" | "noTruncate"
          Faults      \* subset of {"none", "badArgs", "jsonFail", "svgFail"} the environment may choose

Rep == 0..(R - 1)
Wk == 1..W
None == -1
\* deterministic proposal: depends on what was read, the seed, the stage and the step
Prop(v, seed, s, k) == (v * 3 + seed + 2 * s + k) % M
Score(v) == v     \* larger is better
\* what is written for a result: a text whose length depends on the result
Content(v) == [i \in 1..(v + 1) |-> v]
OldFile == [i \in 1..(M + 3) |-> 99]
\* writing without truncating: the new text over the beginning of the old one
Overwrite(old, new) == [i \in 1..(IF Len(old) > Len(new) THEN Len(old) ELSE Len(new)) |->
                          IF i <= Len(new) THEN new[i] ELSE old[i]]

VARIABLES heap,     \* cell id -> value; cell 0 belongs to the input state
          cellOf,   \* replica -> its cell (None before the clone)
          st,       \* replica -> "pending" "clone" "read" "write" "done"
          stage, k, tmp,
          on,       \* worker -> replica it is running (None: idle)
          res,      \* replica -> value of its result (None until done)
          seedOf,   \* replica -> seed its generator got
          phase,    \* "map" "reduced" "logged" "json" "svg" "exit"
          fault,    \* the fault of this execution
          best, logged, files, code, msg, ticket

vars == <<heap, cellOf, st, stage, k, tmp, on, res, seedOf, phase, fault, best, logged, files,
          code, msg, ticket>>

Init ==
  /\ heap = [c \in 0..R |-> IF c = 0 THEN 1 ELSE 0]
  /\ cellOf = [r \in Rep |-> None]
  /\ st = [r \in Rep |-> "pending"]
  /\ stage = [r \in Rep |-> 1] /\ k = [r \in Rep |-> 0] /\ tmp = [r \in Rep |-> 0]
  /\ on = [w \in Wk |-> None]
  /\ res = [r \in Rep |-> None]
  /\ seedOf = [r \in Rep |-> None]
  /\ fault \in Faults
  /\ phase = "map"
  /\ best = None /\ logged = None /\ code = None /\ msg = FALSE /\ ticket = 0
  \* the output path may already hold a file of an earlier run (here: longer than any new one)
  /\ files \in { [names |-> {}, json |-> old] : old \in {<<>>, OldFile} }

\* argument errors are detected before any work is started
BadArgs ==
  /\ phase = "map" /\ fault = "badArgs" /\ \A r \in Rep : st[r] = "pending"
  /\ phase' = "exit" /\ code' = 1 /\ msg' = TRUE
  /\ UNCHANGED <<heap, cellOf, st, stage, k, tmp, on, res, seedOf, fault, best, logged, files, ticket>>

Steal(w, r) ==
  /\ phase = "map" /\ fault # "badArgs"
  /\ on[w] = None /\ st[r] = "pending"
  /\ on' = [on EXCEPT ![w] = r] /\ st' = [st EXCEPT ![r] = "clone"]
  \* the seed is the replica index; the wrong design hands out seeds in the order of arrival
  /\ seedOf' = [seedOf EXCEPT ![r] = IF Variant = "unseeded" THEN ticket ELSE r]
  /\ ticket' = ticket + 1
  /\ UNCHANGED <<heap, cellOf, stage, k, tmp, res, phase, fault, best, logged, files, code, msg>>

\* state.clone(): fresh cells holding the input's values
Clone(w) ==
  LET r == on[w] IN
  /\ r # None /\ st[r] = "clone"
  /\ IF Variant = "shallowClone"
     THEN cellOf' = [cellOf EXCEPT ![r] = 0] /\ heap' = heap
     ELSE cellOf' = [cellOf EXCEPT ![r] = r + 1] /\ heap' = [heap EXCEPT ![r + 1] = heap[0]]
  /\ st' = [st EXCEPT ![r] = "read"]
  /\ UNCHANGED <<stage, k, tmp, on, res, seedOf, phase, fault, best, logged, files, code, msg, ticket>>

Read(w) ==
  LET r == on[w] IN
  /\ r # None /\ st[r] = "read"
  /\ tmp' = [tmp EXCEPT ![r] = heap[cellOf[r]]]
  /\ st' = [st EXCEPT ![r] = "write"]
  /\ UNCHANGED <<heap, cellOf, stage, k, on, res, seedOf, phase, fault, best, logged, files, code, msg, ticket>>

Write(w) ==
  LET r == on[w] IN
  /\ r # None /\ st[r] = "write"
  /\ heap' = [heap EXCEPT ![cellOf[r]] = Prop(tmp[r], seedOf[r], stage[r], k[r])]
  /\ IF k[r] + 1 < K
     THEN k' = [k EXCEPT ![r] = k[r] + 1] /\ st' = [st EXCEPT ![r] = "read"] /\ UNCHANGED stage
     ELSE IF stage[r] < Stages
          THEN k' = [k EXCEPT ![r] = 0] /\ stage' = [stage EXCEPT ![r] = stage[r] + 1]
               /\ st' = [st EXCEPT ![r] = "read"]
          ELSE k' = k /\ stage' = stage /\ st' = [st EXCEPT ![r] = "fin"]
  /\ UNCHANGED <<cellOf, tmp, on, res, seedOf, phase, fault, best, logged, files, code, msg, ticket>>

Fin(w) ==
  LET r == on[w] IN
  /\ r # None /\ st[r] = "fin"
  /\ res' = [res EXCEPT ![r] = heap[cellOf[r]]]
  /\ st' = [st EXCEPT ![r] = "done"] /\ on' = [on EXCEPT ![w] = None]
  /\ UNCHANGED <<heap, cellOf, stage, k, tmp, seedOf, phase, fault, best, logged, files, code, msg, ticket>>

AllDone == \A r \in Rep : st[r] = "done"

(* max() over the replicas: any contiguous binary reduction tree, each     *)
(* node keeping its right argument on a tie (std::cmp::max).               *)
Better(i, j) == IF Variant = "firstMax" THEN (IF Score(res[j]) > Score(res[i]) THEN j ELSE i)
                ELSE (IF Score(res[i]) > Score(res[j]) THEN i ELSE j)
RECURSIVE Trees(_, _)
Trees(lo, hi) == IF lo = hi THEN {lo}
                 ELSE UNION { { Better(a, b) : a \in Trees(lo, m), b \in Trees(m + 1, hi) } : m \in lo..(hi - 1) }
LastMax == CHOOSE i \in Rep : /\ \A j \in Rep : Score(res[j]) <= Score(res[i])
                              /\ \A j \in Rep : j > i => Score(res[j]) < Score(res[i])

Reduce ==
  /\ phase = "map" /\ fault # "badArgs" /\ AllDone
  /\ IF R = 0
     THEN phase' = "exit" /\ code' = 1 /\ msg' = TRUE /\ UNCHANGED best     \* "Error in running optimisation."
     ELSE /\ best' \in Trees(0, R - 1) /\ phase' = "reduced" /\ UNCHANGED <<code, msg>>
  /\ UNCHANGED <<heap, cellOf, st, stage, k, tmp, on, res, seedOf, fault, logged, files, ticket>>

Log ==
  /\ phase = "reduced"
  /\ logged' = Score(heap[cellOf[best]]) /\ phase' = "logged"
  /\ UNCHANGED <<heap, cellOf, st, stage, k, tmp, on, res, seedOf, fault, best, files, code, msg, ticket>>

WriteJson ==
  /\ phase = "logged"
  /\ IF fault = "jsonFail"
     THEN phase' = "exit" /\ code' = 1 /\ msg' = TRUE /\ UNCHANGED files
     ELSE /\ phase' = "json" /\ UNCHANGED <<code, msg>>
          /\ files' = [names |-> files.names \cup {"json"},
                       json |-> IF Variant = "noTruncate" THEN Overwrite(files.json, Content(heap[cellOf[best]]))
                                ELSE Content(heap[cellOf[best]])]
  /\ UNCHANGED <<heap, cellOf, st, stage, k, tmp, on, res, seedOf, fault, best, logged, ticket>>

WriteSvg ==
  /\ phase = "json"
  /\ IF fault = "svgFail"
     THEN phase' = "exit" /\ code' = 1 /\ msg' = TRUE /\ UNCHANGED files
     ELSE phase' = "exit" /\ code' = 0 /\ files' = [files EXCEPT !.names = @ \cup {"svg"}] /\ UNCHANGED msg
  /\ UNCHANGED <<heap, cellOf, st, stage, k, tmp, on, res, seedOf, fault, best, logged, ticket>>

Next ==
  \/ BadArgs
  \/ \E w \in Wk : (\E r \in Rep : Steal(w, r)) \/ Clone(w) \/ Read(w) \/ Write(w) \/ Fin(w)
  \/ Reduce \/ Log \/ WriteJson \/ WriteSvg

Spec == Init /\ [][Next]_vars /\ WF_vars(Next)

-----------------------------------------------------------------------------
(* The sequential meaning of one replica: the chain run alone on a copy.    *)
RECURSIVE SeqRun(_, _, _, _)
SeqRun(v, r, s, i) == IF s > Stages THEN v
                      ELSE IF i = K THEN SeqRun(v, r, s + 1, 0)
                      ELSE SeqRun(Prop(v, r, s, i), r, s, i + 1)
Reference(r) == SeqRun(1, r, 1, 0)

\* C09
Ownership == \A r1, r2 \in Rep : (r1 # r2 /\ cellOf[r1] # None /\ cellOf[r2] # None) => cellOf[r1] # cellOf[r2]
InputUnchanged == heap[0] = 1 /\ \A r \in Rep : cellOf[r] # 0
Deterministic == \A r \in Rep : st[r] = "done" => res[r] = Reference(r)

\* C10
ReduceTreeIndependent == (phase = "map" /\ AllDone /\ R > 0) => Trees(0, R - 1) = {LastMax}
BestWritten == (best # None) => (best = LastMax /\ \A j \in Rep : Score(res[j]) <= Score(res[best]))
LoggedIsWritten == (logged # None) => logged = Score(res[best])
\* the file holds the best result and nothing else, whatever was at that path before
FileIsBest == (phase = "exit" /\ code = 0) => files.json = Content(res[best])
\* the best of the first n replicas never decreases with n (given Deterministic, the replicas
\* of a run with fewer replications are a prefix of this run's)
PrefixMonotone == AllDone =>
   \A n \in 1..(R - 1) :
      LET bestOf(m) == CHOOSE x \in { Score(res[j]) : j \in 0..(m - 1) } :
                          \A y \in { Score(res[j]) : j \in 0..(m - 1) } : y <= x
      IN bestOf(n) <= bestOf(n + 1)

\* C20, CLI clause
ExitOK == phase = "exit" => \/ (code = 0 /\ files.names = {"json", "svg"} /\ fault = "none")
                            \/ (code # 0 /\ code # None /\ msg)
Terminates == <>(phase = "exit")
TypeOK == /\ phase \in {"map", "reduced", "logged", "json", "svg", "exit"}
          /\ \A r \in Rep : st[r] \in {"pending", "clone", "read", "write", "fin", "done"}
=============================================================================
