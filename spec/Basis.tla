-------------------------------- MODULE Basis --------------------------------
(***************************************************************************)
(* The parameter handle of pypacking used directly (src/basis.rs):         *)
(* a StandardBasis over a SharedValue, outside any optimiser.              *)
(*   Set(v)     old := current; current := v clamped into [lo, hi]         *)
(*   Reset      current := old                                             *)
(*   Sample(r)  returns current + step * (hi - lo) * u, u in [-1/2, 1/2):  *)
(*              the value returned differs from current by at most         *)
(*              step * (hi - lo) / 2; nothing changes                      *)
(*   Write(v)   the cell is written through another reference (the state   *)
(*              owns it): current := v, the handle's old is untouched      *)
(* Values are tokens with a fixed-point magnitude Fx (identity in the      *)
(* bounded model).  BasisTrace replays recorded call sequences.            *)
(***************************************************************************)
EXTENDS Integers

CONSTANTS Fx(_), Values, Lo, Hi, Tol

VARIABLES cur, old, last    \* last: <<operation, argument, result>> of the last call
vars == <<cur, old, last>>

InRange(v) == Fx(v) >= Lo - Tol /\ Fx(v) <= Hi + Tol
Init == cur \in Values /\ old = cur /\ last = <<"new", cur, cur>>
\* the result is v itself when it lies inside the range (bit for bit), else a value on a limit
Set(v, res) ==
  /\ old' = cur
  /\ IF Fx(v) >= Lo + Tol /\ Fx(v) <= Hi - Tol THEN res = v
     ELSE IF Fx(v) < Lo THEN Fx(res) <= Lo + Tol /\ Fx(res) >= Lo - Tol
     ELSE IF Fx(v) > Hi THEN Fx(res) >= Hi - Tol /\ Fx(res) <= Hi + Tol
     ELSE InRange(res)
  /\ cur' = res
  /\ last' = <<"set", v, res>>
Reset == cur' = old /\ UNCHANGED old /\ last' = <<"reset", old, old>>
Sample(bound, res) ==
  /\ Fx(res) - Fx(cur) <= bound + Tol /\ Fx(cur) - Fx(res) <= bound + Tol
  /\ UNCHANGED <<cur, old>> /\ last' = <<"sample", bound, res>>
Write(v) == cur' = v /\ UNCHANGED old /\ last' = <<"write", v, v>>
Next == \/ \E v, r \in Values : Set(v, r)
        \/ Reset
        \/ \E v \in Values : Write(v)
Spec == Init /\ [][Next]_vars

\* after a Set the value is in range; a Reset after a Set restores the value before the Set
SetInRange == last[1] = "set" => InRange(cur)
ResetUndoesSet == [][(last[1] = "set" /\ last'[1] = "reset") => cur' = old]_vars
=============================================================================
