-------------------------------- MODULE LJMol --------------------------------
(***************************************************************************)
(* C13, last clause: the energy of two molecules is the sum over their     *)
(* particle pairs.  Molecules are finite sets of unit-sigma particles on   *)
(* the integer grid; molecule B is a catalogue molecule turned by a        *)
(* multiple of 90 degrees and moved by (dx, dy).  TLC lists the squared    *)
(* distance of every particle pair; with r^2 = k the pair law gives        *)
(* q = 1/k^3, so each term is 4 (1/k^6 - 1/k^3) (shifted and cut at        *)
(* rc^2 = C when a cutoff is set).  The two molecules may carry different  *)
(* cutoffs (c2 for A, cb2 for B): the property then still demands that the *)
(* energy is the sum over the particle pairs and the same from either      *)
(* side; PairCut is the pair's cutoff (the larger one; the one that is set *)
(* when only one is).                                                      *)
(***************************************************************************)
EXTENDS Integers, Sequences, FiniteSets
CONSTANTS OffSet, CutSet     \* CutSet: squared cutoffs, 0 = none

Catalogue == << << <<0, 0>> >>,
                << <<0, 0>>, <<1, 0>> >>,
                << <<-1, 0>>, <<0, 0>>, <<1, 0>> >>,
                << <<0, 0>>, <<1, 0>>, <<2, 0>>, <<3, 0>>, <<4, 0>>, <<5, 0>>, <<6, 0>>, <<7, 0>>, <<8, 0>> >>,
                << <<0, 0>>, <<1, 1>>, <<-1, 1>> >> >>

VARIABLES ma, mb, turn, dx, dy, c2, cb2
vars == <<ma, mb, turn, dx, dy, c2, cb2>>
PairCut == IF c2 = 0 THEN cb2 ELSE IF cb2 = 0 THEN c2 ELSE IF c2 > cb2 THEN c2 ELSE cb2

Turn(p, t) == CASE t = 0 -> p [] t = 1 -> <<-p[2], p[1]>> [] t = 2 -> <<-p[1], -p[2]>> [] OTHER -> <<p[2], -p[1]>>
A == Catalogue[ma]
B == [i \in 1..Len(Catalogue[mb]) |-> << Turn(Catalogue[mb][i], turn)[1] + dx, Turn(Catalogue[mb][i], turn)[2] + dy >>]
\* squared distances of all pairs, in the order (particle of A, particle of B)
K == [i \in 1..Len(A) |-> [j \in 1..Len(B) |-> (A[i][1] - B[j][1]) * (A[i][1] - B[j][1]) + (A[i][2] - B[j][2]) * (A[i][2] - B[j][2])]]
NoContact == \A i \in 1..Len(A), j \in 1..Len(B) : K[i][j] > 0

Init == ma = 1 /\ mb = 1 /\ turn = 0 /\ dx = 1 /\ dy = 0 /\ c2 \in CutSet /\ cb2 = c2
Next == \/ \E m \in 1..Len(Catalogue) : ma' = m /\ UNCHANGED <<mb, turn, dx, dy, c2, cb2>>
        \/ \E m \in 1..Len(Catalogue) : mb' = m /\ UNCHANGED <<ma, turn, dx, dy, c2, cb2>>
        \/ \E t \in 0..3 : turn' = t /\ UNCHANGED <<ma, mb, dx, dy, c2, cb2>>
        \/ \E x \in OffSet : dx' = x /\ UNCHANGED <<ma, mb, turn, dy, c2, cb2>>
        \/ \E y \in OffSet : dy' = y /\ UNCHANGED <<ma, mb, turn, dx, c2, cb2>>
        \/ \E c \in CutSet : cb2' = c /\ UNCHANGED <<ma, mb, turn, dx, dy, c2>>
Spec == Init /\ [][Next]_vars
\* the pair list is symmetric in the two molecules: swapping them transposes it
ModelOK == \A i \in 1..Len(A), j \in 1..Len(B) : K[i][j] >= 0
=============================================================================
