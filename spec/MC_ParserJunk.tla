--------------------------- MODULE MC_ParserJunk ---------------------------
(* Second clause of C17: anything that is not a grammar string is reported  *)
(* as an error or parsed, but never crashes.  TLC enumerates every string   *)
(* up to length L over an alphabet that mixes grammar characters with junk  *)
(* (unknown letters, a multi-byte character, stray commas and brackets);    *)
(* the harness feeds each to the real parser under catch_unwind.            *)
EXTENDS Integers, Sequences, FiniteSets, TLC, Json
CONSTANTS L
\* junk: an unknown letter, accented and full-width characters (multi-byte), and characters that
\* Unicode classifies as numeric without being ASCII digits (one half, superscript two, an
\* Arabic-Indic digit, a full-width digit)
Alphabet == {"x", "y", "-", "+", "/", "*", "1", "0", ",", "(", ")", " ", "q", "\\u00e9", "\\uff09",
             "\\u00bd", "\\u00b2", "\\u0662", "\\uff12"}
VARIABLES chars
Init == chars = <<>>
Next == Len(chars) < L /\ \E a \in Alphabet : chars' = Append(chars, a)
Spec == Init /\ [][Next]_chars
RECURSIVE Join(_, _)
Join(cs, i) == IF i > Len(cs) THEN "" ELSE cs[i] \o Join(cs, i + 1)
Emit == PrintT(<<"EMIT", ToJson([s |-> Join(chars, 1), junk |-> TRUE])>>)
=============================================================================
