------------------------------- MODULE Trimer -------------------------------
(***************************************************************************)
(* The hard trimer of pypacking (MolecularShape2::from_trimer) on a        *)
(* rational parameter grid: radius r/Q of the two outer discs, distance    *)
(* d/Q of the outer discs from the centre of mass line, and the half       *)
(* opening angle given by a rational point <<s, c, h>> of the unit circle  *)
(* (sin = s/h, cos = c/h).  The central disc has radius 1.                 *)
(*                                                                         *)
(* Disc centres, multiplied by 3*h*Q:                                      *)
(*   centre disc  (0, -2 d c)        radius 3 h Q                           *)
(*   outer discs  (-+ 3 d s, d c)    radius 3 h r                           *)
(*                                                                         *)
(* For every pair of discs TLC decides exactly whether they are disjoint,  *)
(* one inside the other, or lens-overlapping.  When no pair is a lens the  *)
(* area of the union is an exact rational multiple of pi (property C02).   *)
(* Lens areas are transcendental and are left to the arc-integration       *)
(* oracle of the harness, which is calibrated on the exact cases.          *)
(***************************************************************************)
EXTENDS Integers, Sequences, FiniteSets

CONSTANTS Q, RSet, DSet, AngleSet

Angles == << <<1, 0, 1>>, <<3, 4, 5>>, <<4, 3, 5>>, <<5, 12, 13>>, <<12, 5, 13>>, <<0, 1, 1>>,
             <<8, 15, 17>>, <<15, 8, 17>> >>

VARIABLES r, d, a
vars == <<r, d, a>>

S == Angles[a][1]
C == Angles[a][2]
Hh == Angles[a][3]

Discs == << <<0, -2 * d * C, 3 * Hh * Q>>, <<-3 * d * S, d * C, 3 * Hh * r>>, <<3 * d * S, d * C, 3 * Hh * r>> >>

Dist2(i, j) == (Discs[i][1] - Discs[j][1]) * (Discs[i][1] - Discs[j][1])
             + (Discs[i][2] - Discs[j][2]) * (Discs[i][2] - Discs[j][2])
Rel(i, j) == LET rs == Discs[i][3] + Discs[j][3]
                 rd == Discs[i][3] - Discs[j][3]
             IN IF Dist2(i, j) >= rs * rs THEN "disjoint"
                ELSE IF Dist2(i, j) <= rd * rd THEN "contained"
                ELSE "lens"
PairsOf == { <<1, 2>>, <<1, 3>>, <<2, 3>> }
Case == IF \E p \in PairsOf : Rel(p[1], p[2]) = "lens" THEN "lens"
        ELSE IF \E p \in PairsOf : Rel(p[1], p[2]) = "contained" THEN "contained" ELSE "disjoint"
\* disc i lies inside another disc (ties between equal coincident discs go to the lower index)
Inside(i) == \E j \in 1..3 : j # i /\ Rel(i, j) = "contained"
                /\ (Discs[j][3] > Discs[i][3] \/ (Discs[j][3] = Discs[i][3] /\ j < i))
\* area / pi, multiplied by (3 h Q)^2, when no pair is a lens
RECURSIVE SumOutside(_)
SumOutside(i) == IF i > 3 THEN 0
                 ELSE (IF Inside(i) THEN 0 ELSE Discs[i][3] * Discs[i][3]) + SumOutside(i + 1)
AreaNum == SumOutside(1)
AreaDen == 9 * Hh * Hh * Q * Q

MinOf(X) == CHOOSE x \in X : \A y \in X : x <= y
Init == r = MinOf(RSet) /\ d = MinOf(DSet) /\ a = MinOf(AngleSet)
Next == \/ \E x \in RSet : r' = x /\ UNCHANGED <<d, a>>
        \/ \E x \in DSet : d' = x /\ UNCHANGED <<r, a>>
        \/ \E x \in AngleSet : a' = x /\ UNCHANGED <<r, d>>
Spec == Init /\ [][Next]_vars

\* the union is never larger than the sum of the discs nor smaller than the largest disc
ModelOK == Case # "lens" =>
             /\ AreaNum <= Discs[1][3] * Discs[1][3] + 2 * Discs[2][3] * Discs[2][3]
             /\ AreaNum >= Discs[1][3] * Discs[1][3]
=============================================================================
