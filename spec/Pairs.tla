-------------------------------- MODULE Pairs --------------------------------
(***************************************************************************)
(* Property C12 on a rational grid: two placed copies of one shape.        *)
(* Copy 1 sits at the origin with orientation o1 (and mirror flag m1),     *)
(* copy 2 at (dx, dy)/G with orientation o2 (mirror m2).  World points are *)
(* multiplied by U*G*h1*h2, which makes them integers.  Next moves copy 2  *)
(* by one grid step or changes one orientation / mirror flag, so TLC's     *)
(* reachable set is every configuration of the grid, including the exactly *)
(* aligned ones (parallel and collinear edges, shared vertices, coincident *)
(* copies) that bound clamping makes reachable in the optimiser.           *)
(***************************************************************************)
EXTENDS Integers, Sequences, FiniteSets, Shapes

CONSTANTS U, G, ShapeSet, OrientSet, MirrorSet, OffSet

Orients == << <<1, 0, 1>>, <<0, 1, 1>>, <<-1, 0, 1>>, <<0, -1, 1>>,
              <<4, 3, 5>>, <<3, 4, 5>>, <<-3, 4, 5>>, <<-4, 3, 5>>,
              <<-4, -3, 5>>, <<-3, -4, 5>>, <<3, -4, 5>>, <<4, -3, 5>>,
              <<12, 5, 13>>, <<5, 12, 13>>, <<-5, 12, 13>>, <<-12, 5, 13>> >>

Square == [kind |-> "poly", name |-> "square", radial |-> <<U, U, U, U>>,
           verts |-> << <<0, U>>, <<U, 0>>, <<0, -U>>, <<-U, 0>> >>]
Kite == [kind |-> "poly", name |-> "kite", radial |-> <<U, U \div 2, U, U \div 2>>,
         verts |-> << <<0, U>>, <<U \div 2, 0>>, <<0, -U>>, <<-(U \div 2), 0>> >>]
\* first radial point is the short one
Kite2 == [kind |-> "poly", name |-> "kite2", radial |-> <<U \div 2, U, U \div 2, U>>,
          verts |-> << <<0, U \div 2>>, <<U, 0>>, <<0, -(U \div 2)>>, <<-U, 0>> >>]
\* no mirror line at all: handedness errors change which configurations overlap
Quad == [kind |-> "poly", name |-> "quad", radial |-> <<U, U \div 2, (4 * U) \div 5, (3 * U) \div 10>>,
         verts |-> << <<0, U>>, <<U \div 2, 0>>, <<0, -((4 * U) \div 5)>>, <<-((3 * U) \div 10), 0>> >>]
Circle == [kind |-> "discs", name |-> "circle", r |-> 0, d |-> 0, discs |-> << <<0, 0, U>> >>]
Trimer(r, d) == [kind |-> "discs", name |-> "trimer", r |-> r, d |-> d,
                 discs |-> << <<0, 0, U>>, <<-d, 0, r>>, <<d, 0, r>> >>]

VARIABLES sh, o1, m1, o2, m2, dx, dy
vars == <<sh, o1, m1, o2, m2, dx, dy>>

\* linear part numerators (over h): mirror (x -> -x) applied after the rotation
LinOf(o, m) == LET c == Orients[o][1] s == Orients[o][2] sg == IF m THEN -1 ELSE 1
               IN << sg * c, -sg * s, s, c >>
H1 == Orients[o1][3]
H2 == Orients[o2][3]
App(L, v) == << L[1] * v[1] + L[2] * v[2], L[3] * v[1] + L[4] * v[2] >>
P1(v) == << G * H2 * App(LinOf(o1, m1), v)[1], G * H2 * App(LinOf(o1, m1), v)[2] >>
P2(v) == << G * H1 * App(LinOf(o2, m2), v)[1] + U * H1 * H2 * dx,
            G * H1 * App(LinOf(o2, m2), v)[2] + U * H1 * H2 * dy >>

Verdict ==
  IF sh.kind = "poly"
  THEN PolyVerdict([i \in 1..Len(sh.verts) |-> P1(sh.verts[i])],
                   [i \in 1..Len(sh.verts) |-> P2(sh.verts[i])])
  ELSE DiscVerdict([i \in 1..Len(sh.discs) |->
                      <<P1(<<sh.discs[i][1], sh.discs[i][2]>>)[1], P1(<<sh.discs[i][1], sh.discs[i][2]>>)[2],
                        sh.discs[i][3] * G * H1 * H2>>],
                   [i \in 1..Len(sh.discs) |->
                      <<P2(<<sh.discs[i][1], sh.discs[i][2]>>)[1], P2(<<sh.discs[i][1], sh.discs[i][2]>>)[2],
                        sh.discs[i][3] * G * H1 * H2>>])

\* the verdict does not depend on which copy is called the first: swapping the roles
\* (copy 2 at the origin, copy 1 at the opposite offset) is the same configuration moved
Init == /\ sh \in ShapeSet /\ o1 = MinOf(OrientSet) /\ m1 = FALSE
        /\ o2 = MinOf(OrientSet) /\ m2 = FALSE /\ dx = 0 /\ dy = 0
Next == \/ \E x \in OffSet : dx' = x /\ UNCHANGED <<sh, o1, m1, o2, m2, dy>>
        \/ \E y \in OffSet : dy' = y /\ UNCHANGED <<sh, o1, m1, o2, m2, dx>>
        \/ \E q \in OrientSet : o1' = q /\ UNCHANGED <<sh, m1, o2, m2, dx, dy>>
        \/ \E q \in OrientSet : o2' = q /\ UNCHANGED <<sh, o1, m1, m2, dx, dy>>
        \/ \E b \in MirrorSet : m1' = b /\ UNCHANGED <<sh, o1, o2, m2, dx, dy>>
        \/ \E b \in MirrorSet : m2' = b /\ UNCHANGED <<sh, o1, m1, o2, dx, dy>>
Spec == Init /\ [][Next]_vars

\* coincident copies overlap; far copies are apart (sanity of the model itself)
ModelOK == /\ (dx = 0 /\ dy = 0 /\ o1 = o2 /\ m1 = m2) => Verdict = "overlap"
=============================================================================
