------------------------------ MODULE MC_Pairs ------------------------------
EXTENDS Pairs, TLC, Json
PolyShapes == {Square, Kite, Kite2, Quad}
DiscShapes == {Circle, Trimer(U \div 2, U + U \div 2), Trimer(U, 2 * U), Trimer(U \div 5, 3 * U),
               Trimer((7 * U) \div 5, U)}   \* outer discs larger than the central one
Emit == PrintT(<<"EMIT", ToJson([
          shape |-> sh.name, sr |-> IF sh.kind = "discs" THEN sh.r ELSE 0,
          sd |-> IF sh.kind = "discs" THEN sh.d ELSE 0, U |-> U, G |-> G,
          l1 |-> LinOf(o1, m1), h1 |-> H1, l2 |-> LinOf(o2, m2), h2 |-> H2,
          dx |-> dx, dy |-> dy, verdict |-> Verdict ])>>)
=============================================================================
