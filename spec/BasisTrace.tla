------------------------------ MODULE BasisTrace ------------------------------
(* Recorded sequences of calls on a real StandardBasis / SharedValue pair,  *)
(* replayed against Basis.tla: every call must be a step of the module.      *)
EXTENDS Integers, Sequences, TLC, Json, IOUtils
Log == ndJsonDeserialize(IOEnv.TRACE)
TokFx == ndJsonDeserialize(IOEnv.TOKENS)[1].fx
VARIABLES cur, old, last, lo, hi, l
TFx(t) == TokFx[t]
\* one module instance per handle: the bounds are state here, so the actions are restated with
\* the logged bounds (Basis!Set etc. with Lo, Hi replaced by lo, hi)
InRange(v) == TFx(v) >= lo - 2 /\ TFx(v) <= hi + 2
Init == LET e == Log[2] IN l = 2 /\ cur = e.cur /\ old = e.cur /\ lo = e.lo /\ hi = e.hi /\ last = "new"
Step(e) ==
  CASE e.op = "new" -> cur' = e.cur /\ old' = e.cur /\ lo' = e.lo /\ hi' = e.hi
    [] e.op = "set" -> cur' = e.cur /\ old' = cur /\ UNCHANGED <<lo, hi>>
    [] e.op = "reset" -> cur' = e.cur /\ UNCHANGED <<old, lo, hi>>
    [] e.op = "write" -> cur' = e.cur /\ UNCHANGED <<old, lo, hi>>
    [] e.op = "sample" -> UNCHANGED <<cur, old, lo, hi>>
Next == l < Len(Log) /\ l' = l + 1 /\ Step(Log[l + 1]) /\ last' = Log[l + 1].op
Spec == Init /\ [][Next]_<<cur, old, last, lo, hi, l>>
E == Log[l + 1]
Stepping == l < Len(Log)
\* the laws of Basis.tla on the recorded calls
SetLaw == (Stepping /\ E.op = "set") =>
             /\ (IF TFx(E.arg) >= lo + 2 /\ TFx(E.arg) <= hi - 2 THEN E.cur = E.arg ELSE TRUE)
             /\ (TFx(E.arg) < lo => (TFx(E.cur) <= lo + 2 /\ TFx(E.cur) >= lo - 2))
             /\ (TFx(E.arg) > hi => (TFx(E.cur) >= hi - 2 /\ TFx(E.cur) <= hi + 2))
             /\ TFx(E.cur) >= lo - 2 /\ TFx(E.cur) <= hi + 2
             /\ E.get = E.cur
ResetLaw == (Stepping /\ E.op = "reset") => (E.cur = old /\ E.get = E.cur)
SampleLaw == (Stepping /\ E.op = "sample") =>
               /\ TFx(E.res) - TFx(cur) <= E.bound + 2 /\ TFx(cur) - TFx(E.res) <= E.bound + 2
               /\ E.cur = cur
BasisLaws == [][SetLaw /\ ResetLaw /\ SampleLaw]_<<cur, old, last, lo, hi, l>>
Accepted == IF TLCGet("stats").diameter = Len(Log) - 1 THEN TRUE
            ELSE Print(<<"TRACE-NOT-CONSUMED", TLCGet("stats").diameter, Len(Log)>>, FALSE)
=============================================================================
