---------------------------- MODULE MC_Wallpaper ----------------------------
(* Property C16: the implementation's tables (dumped by the harness from     *)
(* get_wallpaper_group -> WyckoffSite::new, translations doubled) are the    *)
(* seven named plane groups.  TLC walks the Cayley graph of every table:     *)
(* a state is (group, operation reached by composing listed operations).     *)
EXTENDS Wallpaper, TLC, Json, IOUtils

Impl == JsonDeserialize(IOEnv.TABLES)

VARIABLES g, op
vars == <<g, op>>

ImplSeq(x) == Impl[x].ops
ImplSet(x) == { ImplSeq(x)[i] : i \in 1..Len(ImplSeq(x)) }

Init == g \in (Groups \cup DOMAIN Impl) /\ op = Norm(Id)
Next == \E h \in ImplSet(g) : op' = Norm(Compose(h, op)) /\ UNCHANGED g
Spec == Init /\ [][Next]_vars

\* every element reachable by composition is a listed operation (closure), seen from the walk
Closed == op \in NormSet(ImplSet(g))
\* the C16 axioms on the table as a whole
\* ... and the table as a state built for the group carries it (after its JSON form has been
\* read back), paired with the family of the cells the library builds for the group
StoredOK == /\ Impl[g].stored = Impl[g].ops
            /\ Len(Impl[g].stateFamilies) = 2
            /\ \A i \in 1..Len(Impl[g].stateFamilies) : Impl[g].stateFamilies[i] = Impl[g].family
\* the seven named groups against their reference tables; any further group the library offers
\* by name against the axioms alone
TableOK == /\ g \in DOMAIN Impl
           /\ Impl[g].integral
           /\ IF g \in Groups THEN IsGroupTable(ImplSet(g), g, Impl[g].family)
              ELSE IsSomeGroupTable(ImplSet(g), Impl[g].family)
           /\ StoredOK
ReferenceOK == RefOK
Emit == PrintT(<<"EMIT", ToJson([group |-> g, op |-> op, order |-> Len(ImplSeq(g)),
                                  content |-> Content(NormSet(ImplSet(g)))])>>)
=============================================================================
