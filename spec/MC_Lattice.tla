------------------------------ MODULE MC_Lattice ------------------------------
EXTENDS Lattice, TLC, Json
Emit == PrintT(<<"EMIT", ToJson([fam |-> fam, U |-> U, D |-> D, ax |-> ax, bx |-> bx, by |-> by,
                                  fx |-> fx, fy |-> fy, c |-> Orients[o][1], s |-> Orients[o][2],
                                  h |-> Orients[o][3], mir |-> mir, k |-> k, zero |-> zero,
                                  cart |-> ToCart(fx, fy), area |-> Area, corners |-> Corners,
                                  images |-> Images])>>)
=============================================================================
