------------------------------- MODULE Parser -------------------------------
(***************************************************************************)
(* Property C17: coordinate-triplet strings ("-x+1/2, y") and the          *)
(* character automaton that parses them (Transform2::from_operations,      *)
(* src/transform.rs).                                                      *)
(*                                                                         *)
(* Grammar.  A string has two components separated by a comma, optionally  *)
(* enclosed in parentheses.  A component is a sum of at most three signed  *)
(* terms of distinct kinds: x, y, and a constant d or d/e with single      *)
(* digits.  The sign of the first term may be left out when positive.      *)
(* Spaces may surround the signs, the slash of a constant, the comma and    *)
(* the parentheses.                                                        *)
(*                                                                         *)
(* Denote gives the meaning of a component: <<coefficient of x,            *)
(* coefficient of y, constant as numerator and denominator>>.              *)
(*                                                                         *)
(* The automaton is a transcription of the character loop of the           *)
(* implementation: registers sign, constant, operator; one transition per  *)
(* character.  TLC runs it over every string of the grammar (bounded by    *)
(* the digit sets) and checks Automaton = Denote at the end of the input;  *)
(* every string is then replayed on the real parser.                       *)
(***************************************************************************)
EXTENDS Integers, Sequences, FiniteSets

CONSTANTS Digits,       \* numerators d
          Denoms,       \* denominators e; 0 stands for "no denominator"
          Partners,     \* indices into PartnerComps: the other component of the string
          Variants      \* <<lead plus, spacing, parentheses>> combinations

\* a term: <<kind, negative, d, e>>
XTerms == { <<"x", n, 0, 0>> : n \in BOOLEAN }
YTerms == { <<"y", n, 0, 0>> : n \in BOOLEAN }
CTerms == { <<"c", n, d, e>> : n \in BOOLEAN, d \in Digits, e \in Denoms }
Terms == XTerms \cup YTerms \cup CTerms
Kind(t) == t[1]
KindSets == <<XTerms, YTerms, CTerms>>
Perm2 == { <<1, 2>>, <<2, 1>>, <<1, 3>>, <<3, 1>>, <<2, 3>>, <<3, 2>> }
Perm3 == { <<1, 2, 3>>, <<1, 3, 2>>, <<2, 1, 3>>, <<2, 3, 1>>, <<3, 1, 2>>, <<3, 2, 1>> }
Components ==
  { <<a>> : a \in Terms } \cup
  UNION { { <<a, b>> : a \in KindSets[p[1]], b \in KindSets[p[2]] } : p \in Perm2 } \cup
  UNION { { <<a, b, c>> : a \in KindSets[p[1]], b \in KindSets[p[2]], c \in KindSets[p[3]] } : p \in Perm3 }

PartnerComps == << << <<"x", FALSE, 0, 0>> >>,
                   << <<"y", FALSE, 0, 0>> >>,
                   << <<"y", TRUE, 0, 0>>, <<"c", FALSE, 1, 2>> >> >>

\* ---- meaning
RECURSIVE DenoteFrom(_, _, _)
DenoteFrom(comp, i, acc) ==
  IF i > Len(comp) THEN acc
  ELSE LET t == comp[i]
           sg == IF t[2] THEN -1 ELSE 1
       IN DenoteFrom(comp, i + 1,
            CASE t[1] = "x" -> <<sg, acc[2], acc[3], acc[4]>>
              [] t[1] = "y" -> <<acc[1], sg, acc[3], acc[4]>>
              [] OTHER -> <<acc[1], acc[2], sg * t[3], IF t[4] = 0 THEN 1 ELSE t[4]>>)
Denote(comp) == DenoteFrom(comp, 1, <<0, 0, 0, 1>>)

\* ---- concrete syntax, as a sequence of one-character strings
DigitChar(d) == <<"0", "1", "2", "3", "4", "5", "6", "7", "8", "9">>[d + 1]
\* spacing 3, 4, 5: blanks around the slash of a rational constant ("1 / 2", "1/ 2", "1 /2");
\* spacing 6: blanks inside the parentheses and before the comma
TermBody(t, spacing) ==
  CASE t[1] = "x" -> <<"x">>
    [] t[1] = "y" -> <<"y">>
    [] OTHER -> IF t[4] = 0 THEN <<DigitChar(t[3])>>
                ELSE <<DigitChar(t[3])>> \o (IF spacing \in {3, 5} THEN <<" ">> ELSE <<>>) \o <<"/">>
                     \o (IF spacing \in {3, 4} THEN <<" ">> ELSE <<>>) \o <<DigitChar(t[4])>>
SignChars(t, first, leadplus, spacing) ==
  LET sg == IF t[2] THEN <<"-">> ELSE IF first /\ ~leadplus THEN <<>> ELSE <<"+">>
  IN IF sg = <<>> THEN <<>>
     ELSE IF spacing = 1 /\ ~first THEN <<" ">> \o sg \o <<" ">>
     ELSE IF spacing = 2 THEN sg \o <<" ">>
     ELSE sg
RECURSIVE CompChars(_, _, _, _)
CompChars(comp, i, leadplus, spacing) ==
  IF i > Len(comp) THEN <<>>
  ELSE SignChars(comp[i], i = 1, leadplus, spacing) \o TermBody(comp[i], spacing)
       \o CompChars(comp, i + 1, leadplus, spacing)
StringChars(c1, c2, v) ==
  LET body == CompChars(c1, 1, v[1], v[2]) \o (IF v[2] = 6 THEN <<" ">> ELSE <<>>) \o <<",">>
              \o (IF v[2] = 0 THEN <<>> ELSE <<" ">>) \o CompChars(c2, 1, v[1], v[2])
  IN IF v[3] THEN (IF v[2] = 6 THEN <<"(", " ">> \o body \o <<" ", ")">> ELSE <<"(">> \o body \o <<")">>)
     ELSE body

-----------------------------------------------------------------------------
(* The automaton.  reg = [sign, num, den, op]; row = <<x, y>> coefficients. *)
VARIABLES c1, c2, v, chars, pos, comp, sign, num, den, op, rows
vars == <<c1, c2, v, chars, pos, comp, sign, num, den, op, rows>>

IsDigit(ch) == ch \in {"0", "1", "2", "3", "4", "5", "6", "7", "8", "9"}
DigitVal(ch) == CHOOSE d \in 0..9 : DigitChar(d) = ch
EmptyRow == <<0, 0, 0, 1>>

Init == /\ \E a \in Components, p \in Partners, first \in BOOLEAN, w \in Variants :
             /\ c1 = IF first THEN a ELSE PartnerComps[p]
             /\ c2 = IF first THEN PartnerComps[p] ELSE a
             /\ v = w
        /\ chars = StringChars(c1, c2, v)
        /\ pos = 1 /\ comp = 1 /\ sign = 1 /\ num = 0 /\ den = 1 /\ op = "none"
        /\ rows = <<EmptyRow, EmptyRow>>

SetRow(i, r) == [rows EXCEPT ![comp] = [@ EXCEPT ![i] = r]]
\* one character, as the `match c` of the implementation
Step ==
  /\ pos <= Len(chars)
  /\ LET ch == chars[pos] IN
     /\ pos' = pos + 1
     /\ CASE ch = "x" -> /\ rows' = SetRow(1, sign) /\ sign' = 1
                         /\ UNCHANGED <<comp, num, den, op>>
          [] ch = "y" -> /\ rows' = SetRow(2, sign) /\ sign' = 1
                         /\ UNCHANGED <<comp, num, den, op>>
          [] ch \in {"*", "/"} -> op' = ch /\ UNCHANGED <<comp, sign, num, den, rows>>
          [] ch = "-" -> sign' = -1 /\ UNCHANGED <<comp, num, den, op, rows>>
          [] IsDigit(ch) ->
               /\ IF op = "none" THEN num' = sign * DigitVal(ch) /\ den' = 1
                  ELSE num' = sign * num /\ den' = den * DigitVal(ch)   \* '/' and '*' both divide
               /\ op' = "none" /\ sign' = 1
               /\ UNCHANGED <<comp, rows>>
          [] ch \in {" ", "+", "(", ")"} -> UNCHANGED <<comp, sign, num, den, op, rows>>
          [] ch = "," ->
               \* end of a component: the constant is stored, the registers start afresh
               /\ rows' = [rows EXCEPT ![comp] = <<@[1], @[2], num, den>>]
               /\ comp' = comp + 1 /\ sign' = 1 /\ num' = 0 /\ den' = 1 /\ op' = "none"
  /\ UNCHANGED <<c1, c2, v, chars>>
Finish ==
  /\ pos = Len(chars) + 1
  /\ rows' = [rows EXCEPT ![comp] = <<@[1], @[2], num, den>>]
  /\ pos' = pos + 1
  /\ UNCHANGED <<c1, c2, v, chars, comp, sign, num, den, op>>
Next == Step \/ Finish
Spec == Init /\ [][Next]_vars

Done == pos = Len(chars) + 2
SameRat(a, b) == a[1] = b[1] /\ a[2] = b[2] /\ a[3] * b[4] = b[3] * a[4] /\ a[4] # 0 /\ b[4] # 0
\* C17 at the level of the design: the automaton computes the meaning of every grammar string
AutomatonCorrect == Done => (comp = 2 /\ SameRat(rows[1], Denote(c1)) /\ SameRat(rows[2], Denote(c2)))
=============================================================================
