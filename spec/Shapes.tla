------------------------------- MODULE Shapes -------------------------------
(***************************************************************************)
(* Exact overlap of two placed shapes in integer coordinates (property     *)
(* C12; src/shape/components/line2.rs, atom2.rs, line_shape.rs,            *)
(* molecular_shape2.rs).                                                   *)
(*                                                                         *)
(* A convex polygon is a sequence of integer points; a molecule a sequence *)
(* of discs <<x, y, r>>.  The verdict has three values: "overlap" (the     *)
(* interiors meet), "touch" (only the boundaries meet), "apart".  The      *)
(* implementation may answer either way on "touch" (the property grants a  *)
(* 1e-9 band); on the other two its answer is fixed.                        *)
(***************************************************************************)
EXTENDS Integers, Sequences, FiniteSets

Abs(a) == IF a >= 0 THEN a ELSE -a
MaxOf(S) == CHOOSE m \in S : \A z \in S : z <= m
MinOf(S) == CHOOSE m \in S : \A z \in S : z >= m

Dot(u, v) == u[1] * v[1] + u[2] * v[2]

Normals(P) == { << P[(i % Len(P)) + 1][2] - P[i][2], P[i][1] - P[(i % Len(P)) + 1][1] >> : i \in 1..Len(P) }
Proj(P, a) == { Dot(a, P[i]) : i \in 1..Len(P) }
\* "apart": a separating axis with a gap; "touch": only axes with contact; else interiors meet
PolyVerdict(P, Q) ==
  LET axes == Normals(P) \cup Normals(Q)
      strict == \E a \in axes : MaxOf(Proj(P, a)) < MinOf(Proj(Q, a)) \/ MaxOf(Proj(Q, a)) < MinOf(Proj(P, a))
      weak == \E a \in axes : MaxOf(Proj(P, a)) <= MinOf(Proj(Q, a)) \/ MaxOf(Proj(Q, a)) <= MinOf(Proj(P, a))
  IN IF strict THEN "apart" ELSE IF weak THEN "touch" ELSE "overlap"


DiscRel(p, q) == LET dx == p[1] - q[1]
                     dy == p[2] - q[2]
                     rr == p[3] + q[3]
                 IN IF Abs(dx) > rr \/ Abs(dy) > rr THEN "apart"
                    ELSE IF dx * dx + dy * dy < rr * rr THEN "overlap"
                    ELSE IF dx * dx + dy * dy = rr * rr THEN "touch" ELSE "apart"
DiscVerdict(P, Q) ==
  LET rels == { DiscRel(P[i], Q[j]) : i \in 1..Len(P), j \in 1..Len(Q) }
  IN IF "overlap" \in rels THEN "overlap" ELSE IF "touch" \in rels THEN "touch" ELSE "apart"

=============================================================================
