SPECIFICATION Spec
INVARIANTS C06Done C08Range C08Done C18Finish C19Cap C20NoPanic C20Work
PROPERTIES C05 C06 C07 C08 C18 C19 C20Conv C20Prefix Conform
POSTCONDITION Accepted
CHECK_DEADLOCK FALSE
