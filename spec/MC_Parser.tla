------------------------------ MODULE MC_Parser ------------------------------
EXTENDS Parser, TLC, Json
RECURSIVE Join(_, _)
Join(cs, i) == IF i > Len(cs) THEN "" ELSE cs[i] \o Join(cs, i + 1)
\* one line per string, printed when the automaton has consumed it
Emit == Done => PrintT(<<"EMIT", ToJson([s |-> Join(chars, 1),
                                         r1 |-> Denote(c1), r2 |-> Denote(c2),
                                         a1 |-> rows[1], a2 |-> rows[2]])>>)
=============================================================================
